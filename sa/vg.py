"""VG+NF — value graph of a function by def-use with gated joins, over a
table of trusted primitive meanings, and an algebraic normal form (sympy is
used only as a polynomial normaliser).

The evaluator walks the statements of a function once.  Every local name is
bound to a *term*; an ``if`` whose test is not a constant evaluates both arms
and joins the environments with ``Ite(test, a, b)`` terms (gating).  Loops over
literal tuples / known field lists are unrolled; other loops havoc what they
assign.  Calls to repository functions are inlined (depth-limited); calls to
external functions use the primitive table, otherwise they become
uninterpreted applications ``App(name, args)`` (treated as pure).  A term that
involves something the translator does not understand is ``Unknown``; rules
turn a needed ``Unknown`` into ANALYSIS-ERROR, never into a pass or violation.
"""
import ast
import math
from dataclasses import dataclass, field

import sympy as sp

from .model import ClassInfo, FuncInfo, Model
from .src import AnalysisError

PI = sp.pi
# ANG marks "is an angular quantity" (value 1): angles are carried in radians
ANG = sp.Symbol('ANG', positive=True)
DEG = ANG * PI / 180
UNIT = {'deg': DEG, 'degree': DEG, 'rad': ANG, 'radian': ANG,
        'arcsec': DEG / 3600, 'arcmin': DEG / 60, 'hourangle': DEG * 15,
        'pix': sp.Symbol('PIX', positive=True), 'pixel': sp.Symbol('PIX', positive=True),
        'dimensionless_unscaled': sp.Integer(1)}
PIX = UNIT['pix']


# ------------------------------------------------------------------ terms
@dataclass(frozen=True)
class Unknown:
    why: str

    def __repr__(self):
        return f'Unknown({self.why})'


@dataclass(frozen=True)
class App:
    """Uninterpreted pure application (or attribute read on an opaque)."""
    name: str
    args: tuple = ()

    def __repr__(self):
        return f'{self.name}({", ".join(map(repr, self.args))})'


@dataclass(frozen=True)
class Ite:
    cond: object
    a: object
    b: object


@dataclass(frozen=True)
class Cmp:
    op: str            # < <= == != is isnot in notin
    lhs: object
    rhs: object


@dataclass(frozen=True)
class BoolT:
    op: str            # and or xor not truthy
    args: tuple


@dataclass(frozen=True)
class Const:
    v: object          # str / None / bool

    def __repr__(self):
        return f'Const({self.v!r})'


@dataclass(frozen=True)
class Tup:
    items: tuple
    kind: str = 'tuple'


@dataclass(frozen=True)
class ClassRef:
    ci: object = field(compare=False)
    name: str = ''


@dataclass(frozen=True)
class FuncRef:
    fi: object = field(compare=False)
    qual: str = ''
    bound: object = None


@dataclass(frozen=True)
class ExtRef:
    name: str


class Obj:
    """A (possibly symbolic) instance: PixCoord, region, meta dict ..."""

    def __init__(self, cls, fields=None, path=None, ci=None):
        self.cls = cls          # class name
        self.fields = dict(fields or {})
        self.path = path        # access path when symbolic root/leaf
        self.ci = ci

    def key(self):
        return _key(self)

    def __eq__(self, other):
        return isinstance(other, Obj) and self.key() == other.key()

    def __hash__(self):
        return hash(self.key())

    def __repr__(self):
        if self.path and not self.fields:
            return f'<{self.cls} {self.path}>'
        return f'<{self.cls} {self.fields}>'


class Popped:
    """layer marker: key removed from the dict at this point"""

    def __init__(self, key):
        self.key = key


class DictV:
    """Ordered layers: {const key: value} dicts, symbolic terms (unknown mappings
    merged in at that point) and Popped(key) markers."""

    def __init__(self, layers=None):
        self.layers = list(layers or [])

    def copy(self):
        return DictV([dict(l) if isinstance(l, dict) else l for l in self.layers])

    def get(self, k):
        """value | Const('__absent__') | None (a symbolic layer may define it)"""
        for l in reversed(self.layers):
            if isinstance(l, dict):
                if k in l:
                    return l[k]
            elif isinstance(l, Popped):
                if l.key == k:
                    return Const('__absent__')
            else:
                return None
        return Const('__absent__')

    def symbolic_sources(self, k):
        """the symbolic layers that may define k (in order), ignoring later concrete layers"""
        out = []
        for l in self.layers:
            if isinstance(l, Popped):
                if l.key == k:
                    out = []
            elif not isinstance(l, dict):
                out.append(l)
            elif k in l:
                out = []
        return out

    def set(self, k, v):
        if self.layers and isinstance(self.layers[-1], dict):
            self.layers[-1][k] = v
        else:
            self.layers.append({k: v})

    def pop(self, k):
        for l in self.layers:
            if isinstance(l, dict):
                l.pop(k, None)
        if self.has_symbolic():
            self.layers.append(Popped(k))

    def has_symbolic(self):
        return any(not isinstance(l, (dict, Popped)) for l in self.layers)

    def keys(self):
        ks = []
        for l in self.layers:
            if isinstance(l, dict):
                ks += [k for k in l if k not in ks]
            elif isinstance(l, Popped) and l.key in ks:
                ks.remove(l.key)
        return ks

    def key(self):
        return _key(self)

    def __eq__(self, o):
        return isinstance(o, DictV) and self.key() == o.key()

    def __hash__(self):
        return hash(self.key())

    def __repr__(self):
        return f'DictV{self.layers}'


_INTERN = {}
_KEYCACHE = {}


def _intern(t):
    n = _INTERN.get(t)
    if n is None:
        n = len(_INTERN) + 1
        _INTERN[t] = n
    return n


def _key(v):
    """Hash-consed structural key (an int): equal terms get equal keys; linear in DAG size."""
    immut = isinstance(v, (Tup, App, Ite, Cmp, BoolT))
    if immut:
        c = _KEYCACHE.get(id(v))
        if c is not None and c[0] is v:
            return c[1]
    if isinstance(v, Obj):
        k = _intern(('Obj', v.cls, v.path, tuple(sorted((f, _key(x)) for f, x in v.fields.items()))))
    elif isinstance(v, DictV):
        k = _intern(('DictV', tuple(
            tuple(sorted((kk, _key(x)) for kk, x in l.items())) if isinstance(l, dict)
            else (('popped', l.key) if isinstance(l, Popped) else ('sym', _key(l))) for l in v.layers)))
    elif isinstance(v, Tup):
        k = _intern(('Tup', tuple(_key(i) for i in v.items)))
    elif isinstance(v, sp.Basic):
        k = _intern(('sp', sp.srepr(v)))
    elif isinstance(v, App):
        k = _intern(('App', v.name, tuple(_key(a) for a in v.args)))
    elif isinstance(v, Ite):
        k = _intern(('Ite', _key(v.cond), _key(v.a), _key(v.b)))
    elif isinstance(v, Cmp):
        k = _intern(('Cmp', v.op, _key(v.lhs), _key(v.rhs)))
    elif isinstance(v, BoolT):
        k = _intern(('BoolT', v.op, tuple(_key(a) for a in v.args)))
    else:
        k = _intern(('py', repr(v)))
    if immut:
        _KEYCACHE[id(v)] = (v, k)
    return k


def same(a, b):
    return _key(a) == _key(b)


def is_num(v):
    return isinstance(v, sp.Basic)


class TermKey(str):
    """dictionary key standing for an opaque (closed) term, e.g. an object of an external library."""


def is_unknown(v):
    return isinstance(v, Unknown)


def contains_unknown(v, _d=0, _seen=None):
    if isinstance(v, Unknown):
        return v
    if _d > 40:
        return None
    # terms are DAGs (joins share sub-terms): visit each node once
    if _seen is None:
        _seen = set()
    if id(v) in _seen:
        return None
    _seen.add(id(v))
    subs = []
    if isinstance(v, Tup):
        subs = v.items
    elif isinstance(v, App):
        subs = v.args
    elif isinstance(v, Ite):
        subs = (v.cond, v.a, v.b)
    elif isinstance(v, Cmp):
        subs = (v.lhs, v.rhs)
    elif isinstance(v, BoolT):
        subs = v.args
    elif isinstance(v, Obj):
        subs = tuple(v.fields.values())
    elif isinstance(v, DictV):
        subs = [x for l in v.layers if not isinstance(l, Popped) for x in (l.values() if isinstance(l, dict) else [l])]
    elif isinstance(v, sp.Basic):
        for f in v.atoms(sp.Function):
            if isinstance(f, sp.core.function.AppliedUndef) and f.func.__name__.startswith('UNK_'):
                return Unknown(f.func.__name__)
        return None
    for s in subs:
        u = contains_unknown(s, _d + 1, _seen)
        if u is not None:
            return u
    return None


def num(c):
    if isinstance(c, bool):
        return Const(c)
    if isinstance(c, int):
        return sp.Integer(c)
    if isinstance(c, float):
        if c != c or c in (float('inf'), float('-inf')):
            return sp.nan if c != c else (sp.oo if c > 0 else -sp.oo)
        return sp.Rational(repr(c))
    raise TypeError(c)


def sym(name, positive=False):
    return sp.Symbol(name, positive=True) if positive else sp.Symbol(name, real=True)


def mk_not(x):
    if isinstance(x, Const) and isinstance(x.v, bool):
        return Const(not x.v)
    if isinstance(x, BoolT) and x.op == 'not':
        return x.args[0]
    return BoolT('not', (x,))


def truthy(x):
    """Truthiness of a term as a boolean term."""
    if isinstance(x, Const):
        return Const(bool(x.v))
    if isinstance(x, (Cmp, BoolT)):
        return x
    if isinstance(x, sp.Basic) and x.is_number:
        return Const(bool(x != 0))
    if isinstance(x, Tup):
        return Const(len(x.items) > 0)
    if isinstance(x, Obj) and getattr(x, 'truth', None) is not None:
        return Const(x.truth)
    if isinstance(x, Ite):
        ta, tb = truthy(x.a), truthy(x.b)
        if isinstance(ta, Const) and isinstance(tb, Const):
            return mk_ite(x.cond, ta, tb)
    if isinstance(x, DictV) and not x.has_symbolic():
        return Const(len(x.keys()) > 0)
    return BoolT('truthy', (x,))


def mk_ite(c, a, b):
    if isinstance(c, Const):
        return a if c.v else b
    if isinstance(a, (Ite, Cmp, BoolT)):
        a = assume(a, c, True)
    if isinstance(b, (Ite, Cmp, BoolT)):
        b = assume(b, c, False)
    if same(a, b):
        return a
    if isinstance(a, Const) and isinstance(b, Const) and a.v is True and b.v is False:
        return c
    if isinstance(a, Const) and isinstance(b, Const) and a.v is False and b.v is True:
        return mk_not(c)
    if isinstance(a, Tup) and isinstance(b, Tup) and len(a.items) == len(b.items) and a.kind == b.kind:
        return Tup(tuple(mk_ite(c, x, y) for x, y in zip(a.items, b.items)), a.kind)
    return Ite(c, a, b)


def _ite_plain(c, a, b):
    if isinstance(c, Const):
        return a if c.v else b
    if a is b or same(a, b):
        return a
    if isinstance(a, Const) and isinstance(b, Const) and a.v is True and b.v is False:
        return c
    if isinstance(a, Const) and isinstance(b, Const) and a.v is False and b.v is True:
        return mk_not(c)
    return Ite(c, a, b)


def assume(t, c, truth, _d=0, _memo=None):
    """Simplify term t knowing that boolean term c has the given truth value."""
    if isinstance(c, BoolT) and c.op == 'not':
        return assume(t, c.args[0], not truth, _d, _memo)
    if _memo is None:
        _memo = {'ck': _key(c), 'n': 0}
    if not isinstance(t, (Ite, Cmp, BoolT, Tup, App)) or _d > 25:
        return t
    k = id(t)
    if k in _memo:
        return _memo[k]
    _memo['n'] += 1
    if _memo['n'] > 4000:
        return t
    ck = _memo['ck']
    if isinstance(t, Ite):
        tk = _key(t.cond)
        if tk == ck:
            r = assume(t.a if truth else t.b, c, truth, _d + 1, _memo)
        elif isinstance(t.cond, BoolT) and t.cond.op == 'not' and _key(t.cond.args[0]) == ck:
            r = assume(t.b if truth else t.a, c, truth, _d + 1, _memo)
        else:
            r = _ite_plain(assume(t.cond, c, truth, _d + 1, _memo), assume(t.a, c, truth, _d + 1, _memo),
                           assume(t.b, c, truth, _d + 1, _memo))
    elif isinstance(t, (Cmp, BoolT)) and _key(t) == ck:
        r = Const(truth)
    elif isinstance(t, Tup):
        items = tuple(assume(i, c, truth, _d + 1, _memo) for i in t.items)
        r = t if all(x is y for x, y in zip(items, t.items)) else Tup(items, t.kind)
    elif isinstance(t, App):
        args = tuple(assume(a, c, truth, _d + 1, _memo) for a in t.args)
        r = t if all(x is y for x, y in zip(args, t.args)) else App(t.name, args)
    elif isinstance(t, Cmp):
        l, rr = assume(t.lhs, c, truth, _d + 1, _memo), assume(t.rhs, c, truth, _d + 1, _memo)
        r = t if (l is t.lhs and rr is t.rhs) else Cmp(t.op, l, rr)
    elif isinstance(t, BoolT):
        args = tuple(assume(a, c, truth, _d + 1, _memo) for a in t.args)
        r = t if all(x is y for x, y in zip(args, t.args)) else simp_bool(BoolT(t.op, args))
    else:
        r = t
    _memo[k] = r
    return r


def assume_env(env, c, truth):
    for k, v in list(env.items()):
        if isinstance(v, (Ite, Tup, App, Cmp, BoolT)):
            env[k] = assume(v, c, truth)


# -------------------------------------------------------------- evaluator
class LocalFunc:
    """a function defined inside the function being evaluated (closure over the live environment)."""

    def __init__(self, node, env, fi):
        self.node, self.env, self.fi = node, env, fi

    def __repr__(self):
        return f'localfunc:{self.node.name}'


class Aborted(Exception):
    """An inlined callee raises unconditionally: the calling path ends."""


@dataclass
class Outcome:
    returns: list      # [(pathcond list, value)]
    raises: list       # [(pathcond list, exc name, node)]
    env: dict = None
    yielded: list = None
    gen_unknown: bool = False


class GenV:
    """a generator object of a repository generator function, not yet run (it runs when it is consumed)."""

    def __init__(self, fi, args, kwargs, depth):
        self.fi, self.args, self.kwargs, self.depth = fi, args, kwargs, depth
        self.consumed = False

    def key(self):
        return ('gen', self.fi.qualname, id(self))


# builtins / container methods that run a generator argument to its end
GEN_CONSUMERS = {'list', 'tuple', 'set', 'frozenset', 'sorted', 'sum', 'any', 'all', 'max', 'min', 'dict', 'enumerate', 'zip',
                 'reversed', 'map', 'filter'}
GEN_CONSUMER_METHODS = {'extend', 'join', 'update', 'union', 'array', 'asarray', 'fromiter', 'chain', 'from_iterable'}


def _is_generator(fn):
    """does the function body (nested functions and lambdas excluded) contain a yield?"""
    stack = list(fn.body)
    while stack:
        n = stack.pop()
        if isinstance(n, (ast.Yield, ast.YieldFrom)):
            return True
        if isinstance(n, (ast.FunctionDef, ast.AsyncFunctionDef, ast.Lambda, ast.ClassDef)):
            continue
        stack.extend(ast.iter_child_nodes(n))
    return False


class Frame:
    def __init__(self, fi, self_obj, depth):
        self.yielded = []      # values yielded so far (generator functions)
        self.gen_unknown = False
        self.pending_abort = None
        self.fi = fi
        self.self_obj = self_obj
        self.depth = depth
        self.returns = []
        self.raises = []
        self.loops = []
        self.effects = []   # (kind, target, value) for attribute stores etc.
        self.ret_fields = []  # (pc, fields of self at an explicit return)


MAX_DEPTH = 7

DESCR_POSITIVE = {'PositiveScalar', 'PositiveScalarAngle'}
DESCR_PIX = {'ScalarPixCoord', 'OneDPixCoord'}
DESCR_SKY = {'ScalarSkyCoord', 'OneDSkyCoord'}
EMPTY_CTORS = {'RegionMeta', 'RegionVisual', 'dict', 'list'}


class Evaluator:
    def __init__(self, model: Model, opaque_funcs=(), hooks=None, track_copies=False):
        self.m = model
        self.track_copies = track_copies
        self.opaque = set(opaque_funcs)     # qualnames not to inline
        self.hooks = hooks or {}            # ext/dotted name -> fn(ev, args, kwargs)
        self.descriptor_sets = False        # opt-in: attribute stores run the repository descriptor's __set__
        self.trace = []
        self._stack = []

    # ---------------------------------------------------------- objects
    def symbolic_instance(self, ci: ClassInfo, path='self'):
        return Obj(ci.name, {}, path, ci)

    def leaf_attr(self, obj: Obj, attr):
        """Attribute of a symbolic instance that is not a set field."""
        ci = obj.ci
        path = f'{obj.path}.{attr}'
        if obj.cls == 'PixCoord':
            if attr in ('x', 'y'):
                return sym(path)
        if ci is not None:
            kind = self.m.descriptor_kind(ci, attr)
            if kind in DESCR_PIX:
                return Obj('PixCoord', {}, path, self.m.cls('PixCoord'))
            if kind in DESCR_POSITIVE:
                return sym(path, positive=True)
            if kind == 'ScalarAngle':
                return sym(path)
            if kind in DESCR_SKY:
                return Obj('SkyCoord', {}, path)
            if kind == 'RegionMetaDescr':
                return Obj('RegionMeta', {}, path)
            if kind == 'RegionVisualDescr':
                return Obj('RegionVisual', {}, path)
            if kind == 'RegionType':
                base = 'PixelRegion' if self.m.is_subclass(ci, 'PixelRegion') else 'SkyRegion'
                return Obj(base, {}, path, self.m.cls(base))
            if attr in ('meta', 'visual') and self.m.is_subclass(ci, 'Region'):
                # instance attribute set by every region constructor (C06.R3)
                return Obj('RegionMeta' if attr == 'meta' else 'RegionVisual', {}, path)
            r = self.m.lookup(ci, attr)
            if r is not None:
                dc, k, what = r
                if k == 'method':
                    if what.is_property:
                        if what.qualname in self.hooks:
                            return self.hooks[what.qualname](self, [obj], {})
                        if what.is_abstract:
                            return App('attr:' + attr, (obj,))
                        return self.call(what, [obj], {}, 1)
                    if what.is_static:
                        return FuncRef(what, what.qualname, None)
                    if what.is_classmethod:
                        return FuncRef(what, what.qualname, ClassRef(ci, ci.name))
                    return FuncRef(what, what.qualname, obj)
                # class-level constant
                return self.eval_in_module(what, dc.module)
            if attr in ('meta', 'visual'):
                return Obj('RegionMeta' if attr == 'meta' else 'RegionVisual', {}, path)
        if attr == '__class__' and ci is not None:
            return ClassRef(ci, ci.name)
        return App('attr:' + attr, (obj,))

    def construct(self, ci: ClassInfo, args, kwargs, depth):
        if ci.name == 'PixCoord':
            a = list(args) + [None, None]
            x = kwargs.get('x', a[0])
            y = kwargs.get('y', a[1])
            return Obj('PixCoord', {'x': x, 'y': y}, None, ci)
        init = self.m.method(ci, '__init__')
        obj = Obj(ci.name, {}, None, ci)
        if init is None and any('dataclass' in ast.unparse(d) for d in ci.node.decorator_list):
            flds = [b.target.id for b in ci.node.body if isinstance(b, ast.AnnAssign) and isinstance(b.target, ast.Name)]
            for f, v in zip(flds, args):
                obj.fields[f] = v
            for k, v in kwargs.items():
                obj.fields[k] = v
            return obj
        if init is None:
            if ci.name in ('RegionMeta', 'RegionVisual', 'Meta'):
                return App(ci.name, tuple(args))
            if any(isinstance(b, str) and b == 'list' for b in ci.bases):
                items = _iter_items(args[0]) if args else []
                obj.fields['__items__'] = Tup(tuple(items or ()), 'list')
            return obj
        if ci.name in ('RegionMeta', 'RegionVisual', 'Meta'):
            if not args and not kwargs:
                return DictV([{}])
            return App(ci.name, tuple(args))
        if ci.name in ('RegionMask', 'RegionBoundingBox') and depth > 0:
            pass
        self.call(init, [obj] + list(args), kwargs, depth + 1)
        return obj

    # ------------------------------------------------------------ calls
    def bind(self, fi, args, kwargs):
        a = fi.node.args
        pos = a.posonlyargs + a.args
        env = {}
        args = list(args)
        for i, p in enumerate(pos):
            if i < len(args):
                env[p.arg] = args[i]
        if len(args) > len(pos):
            if a.vararg:
                env[a.vararg.arg] = Tup(tuple(args[len(pos):]))
            else:
                raise AnalysisError('VG', fi.qualname, 'too many positional arguments')
        elif a.vararg:
            env[a.vararg.arg] = Tup(())
        extra = {}
        names = {p.arg for p in pos + a.kwonlyargs}
        for k, v in kwargs.items():
            if k == '**':
                extra['**'] = v
            elif k in names:
                env[k] = v
            else:
                extra[k] = v
        defaults = [None] * (len(pos) - len(a.defaults)) + list(a.defaults)
        for p, d in zip(pos, defaults):
            if p.arg not in env:
                env[p.arg] = (self.eval_in_module(d, fi.module) if d is not None
                              else Unknown(f'missing argument {p.arg} of {fi.qualname}'))
        for p, d in zip(a.kwonlyargs, a.kw_defaults):
            if p.arg not in env:
                env[p.arg] = (self.eval_in_module(d, fi.module) if d is not None
                              else Unknown(f'missing argument {p.arg}'))
        if a.kwarg:
            layers = []
            if '**' in extra:
                layers.append(extra.pop('**'))
            d = DictV(layers)
            if extra or not layers:
                d.layers.append(dict(extra))
            env[a.kwarg.arg] = d
        elif extra:
            raise AnalysisError('VG', fi.qualname, f'unexpected keyword {list(extra)}')
        return env

    def call(self, fi: FuncInfo, args, kwargs, depth=0):
        """Inline a repo function: returns its gated return value; its raise
        outcomes are propagated to the calling frame."""
        if depth > MAX_DEPTH:
            return Unknown(f'inlining depth exceeded at {fi.qualname}')
        caller = self._stack[-1] if self._stack else None
        out = self.run(fi, args, kwargs, depth)
        if caller is not None and out.raises:
            fr, pc = caller
            for rpc, name, node in out.raises:
                fr.raises.append((list(pc) + list(rpc), name, node))
            if not out.returns and not out.fell_through:
                raise Aborted()
            if len(out.raises) <= 3:
                for rpc, name, node in out.raises:
                    c = self.conj(rpc)
                    if not (isinstance(c, Const)):
                        pc.append(mk_not(c))
        return self.gated_return(out)

    def drain(self, g, fr):
        """Run a generator to its end: (list of the values it yielded | Unknown, ended-with-a-definite-raise).  Its raise
        outcomes reach the consuming frame."""
        if g.consumed:
            return Tup((), 'list'), False
        g.consumed = True
        if g.depth > MAX_DEPTH:
            return Unknown(f'inlining depth exceeded at generator {g.fi.qualname}'), False
        caller = self._stack[-1] if self._stack else None
        out = self.run(g.fi, g.args, g.kwargs, g.depth)
        if out.gen_unknown:
            return Unknown(f'generator {g.fi.name} yields under a symbolic condition or in a symbolic loop'), False
        definite = False
        if caller is not None and out.raises:
            cfr, pc = caller
            for rpc, name, node in out.raises:
                cfr.raises.append((list(pc) + list(rpc), name, node))
            definite = not out.returns and not out.fell_through
            if not definite and len(out.raises) <= 3:
                for rpc, name, node in out.raises:
                    c = self.conj(rpc)
                    if not isinstance(c, Const):
                        pc.append(mk_not(c))
        return Tup(tuple(out.yielded), 'list'), definite

    def _callee_in_repo(self, n, env, fr):
        """does the call expression n call a repository function/class (which receives a generator argument as it is)?"""
        f = n.func
        try:
            if isinstance(f, ast.Name):
                v = env.get(f.id)
                if v is None:
                    v = self.ref_of(self.m.resolve_name(fr.fi.module, f.id))
                return isinstance(v, (FuncRef, ClassRef, LocalFunc))
            if isinstance(f, ast.Attribute):
                if isinstance(f.value, ast.Call):
                    return False
                base = self.expr(f.value, env, fr)
                if isinstance(base, Obj) and base.ci is not None:
                    r = self.m.lookup(base.ci, f.attr)
                    return r is not None and r[1] == 'method'
                if isinstance(base, (ClassRef,)):
                    return True
        except (AnalysisError, KeyError, TypeError):
            return False
        return False

    def gated_return(self, out):
        if not out.returns:
            return Const(None)
        if len(out.returns) > 1 and isinstance(out.returns[-1][1], Const) \
                and out.returns[-1][1].v is None and getattr(out, 'fell_through', False):
            pass
        # conditions common to every return are preconditions of returning at all
        pcs = [list(pc) for pc, _ in out.returns]
        k = 0
        while all(len(p) > k for p in pcs) and all(same(p[k], pcs[0][k]) for p in pcs):
            k += 1
        val = out.returns[-1][1]
        for pc, v in reversed(out.returns[:-1]):
            c = self.conj(pc[k:])
            val = mk_ite(c, v, val)
        return val

    def conj(self, pc):
        pc = [p for p in pc if not (isinstance(p, Const) and p.v is True)]
        if not pc:
            return Const(True)
        if len(pc) == 1:
            return pc[0]
        return BoolT('and', tuple(pc))

    def run(self, fi: FuncInfo, args, kwargs, depth=0, env_extra=None):
        env = self.bind(fi, args, kwargs)
        if env_extra:
            env.update(env_extra)
        self_obj = args[0] if (fi.cls and not fi.is_static and args) else None
        fr = Frame(fi, self_obj, depth)
        pc = []
        self._stack.append((fr, pc))
        try:
            fell = self.block(fi.node.body, env, pc, fr)
        finally:
            self._stack.pop()
        if fell:
            fr.returns.append((list(pc), Const(None)))
            if isinstance(self_obj, Obj):
                fr.ret_fields.append((list(pc), dict(self_obj.fields)))
        if isinstance(self_obj, Obj) and len(fr.ret_fields) > 1:
            # the state of `self` at exit is the join over all exits (an early `return` after stores keeps them)
            snaps = fr.ret_fields
            pcs = [p_ for p_, _ in snaps]
            k = 0
            while all(len(p_) > k for p_ in pcs) and all(same(p_[k], pcs[0][k]) for p_ in pcs):
                k += 1
            merged = {}
            for name in {n_ for _, f_ in snaps for n_ in f_}:
                vals = [f_.get(name) for _, f_ in snaps]
                if all(v_ is not None and (v_ is vals[0] or same(v_, vals[0])) for v_ in vals):
                    merged[name] = vals[0]
                    continue
                val = vals[-1] if vals[-1] is not None else Unknown(f'{name} undefined on one path')
                for (p_, _), v_ in zip(reversed(snaps[:-1]), reversed(vals[:-1])):
                    val = mk_ite(self.conj(p_[k:]), v_ if v_ is not None else Unknown(f'{name} undefined on one path'), val)
                merged[name] = val
            self_obj.fields.clear()
            self_obj.fields.update(merged)
        out = Outcome(fr.returns, fr.raises, env)
        out.yielded, out.gen_unknown = fr.yielded, fr.gen_unknown
        out.fell_through = fell
        return out

    # ------------------------------------------------------- statements
    def block(self, stmts, env, pc, fr):
        """Execute statements; returns False when the block cannot fall through."""
        for st in stmts:
            if not self.stmt(st, env, pc, fr):
                return False
        return True

    def stmt(self, st, env, pc, fr):
        if self._stack and self._stack[-1][0] is fr:
            self._stack[-1] = (fr, pc)
        else:
            self._stack.append((fr, pc))
            try:
                return self.stmt(st, env, pc, fr)
            finally:
                self._stack.pop()
        try:
            ok = self._stmt(st, env, pc, fr)
        except Aborted:
            return False
        if fr.pending_abort is st:
            fr.pending_abort = None      # the generator this loop consumed ended with an exception
            return False
        return ok

    def _stmt(self, st, env, pc, fr):
        if isinstance(st, ast.Expr):
            if isinstance(st.value, ast.Constant):
                return True
            if isinstance(st.value, (ast.Yield, ast.YieldFrom)):
                if any(not (isinstance(c, Const) and c.v is True) for c in pc):
                    fr.gen_unknown = True        # yielded under a symbolic condition
                if isinstance(st.value, ast.Yield):
                    fr.yielded.append(self.expr(st.value.value, env, fr) if st.value.value is not None else Const(None))
                else:
                    src = self.expr(st.value.value, env, fr)
                    if isinstance(src, GenV):
                        src, ab = self.drain(src, fr)
                        if ab:
                            fr.yielded.extend(_iter_items(src) or [])
                            raise Aborted()
                    items = _iter_items(src)
                    if items is None:
                        fr.gen_unknown = True
                    else:
                        fr.yielded.extend(items)
                return True
            self.expr(st.value, env, fr)
            return True
        if isinstance(st, ast.Assign):
            v = self.expr(st.value, env, fr)
            for t in st.targets:
                self.assign(t, v, env, fr)
            return True
        if isinstance(st, ast.AnnAssign):
            if st.value is not None:
                self.assign(st.target, self.expr(st.value, env, fr), env, fr)
            return True
        if isinstance(st, ast.AugAssign):
            cur = self.expr(_as_load(st.target), env, fr)
            rhs = self.expr(st.value, env, fr)
            v = self.binop(st.op, cur, rhs)
            self.assign(st.target, v, env, fr)
            return True
        if isinstance(st, ast.Return):
            v = self.expr(st.value, env, fr) if st.value is not None else Const(None)
            fr.returns.append((list(pc), v))
            if isinstance(fr.self_obj, Obj):
                fr.ret_fields.append((list(pc), dict(fr.self_obj.fields)))
            return False
        if isinstance(st, ast.Raise):
            name = None
            if st.exc is not None:
                e = st.exc.func if isinstance(st.exc, ast.Call) else st.exc
                name = ast.unparse(e)
                # raise _make_error(...): the exception class is the one the module's helper constructs on every return
                if isinstance(st.exc, ast.Call) and isinstance(e, ast.Name) and fr.fi is not None:
                    try:
                        rr = self.m.resolve_name(fr.fi.module, e.id)
                    except Exception:
                        rr = (None,)
                    if rr and rr[0] == 'func':
                        made = {ast.unparse(r_.value.func) for r_ in ast.walk(rr[1].node)
                                if isinstance(r_, ast.Return) and isinstance(r_.value, ast.Call)}
                        plain = [r_ for r_ in ast.walk(rr[1].node) if isinstance(r_, ast.Return)
                                 and not isinstance(r_.value, ast.Call)]
                        if len(made) == 1 and not plain:
                            name = made.pop()
            fr.raises.append((list(pc), name, st))
            return False
        if isinstance(st, ast.If):
            c = truthy(self.expr(st.test, env, fr))
            return self.branch(c, st.body, st.orelse, env, pc, fr)
        if isinstance(st, ast.For):
            it = self.expr(st.iter, env, fr)
            if isinstance(it, GenV):
                # the generator is run to its end (or to its raise): the loop body sees what it yielded before
                it, ab = self.drain(it, fr)
                if ab:
                    fr.pending_abort = st
            items = _iter_items(it)
            if items is not None:
                has_break = _has_break(st.body)
                snapshot = _copy_env(env) if has_break else None
                broke = False
                for item in items:
                    self.assign(st.target, item, env, fr)
                    ctx = {'continues': [], 'breaks': [], 'pc_len': len(pc)}
                    fr.loops.append(ctx)
                    nret = len(fr.returns)
                    fell = self.block(st.body, env, pc, fr)
                    fr.loops.pop()
                    body_pc = pc[ctx['pc_len']:]
                    del pc[ctx['pc_len']:]
                    if ctx['breaks']:
                        bpc, benv = ctx['breaks'][-1]
                        if len(ctx['breaks']) == 1 and len(bpc) == ctx['pc_len'] and not ctx['continues'] and not fell:
                            # a break reached under no symbolic condition: the loop ends here, `else` is skipped
                            env.clear(); env.update(benv)
                            broke = True
                            break
                        env.clear(); env.update(snapshot)
                        _havoc(st.body, env, 'loop with a conditional break')
                        return True
                    if ctx['continues']:
                        if not fell:
                            cpc, cenv = ctx['continues'][-1]
                            env.clear(); env.update(cenv)
                            rest = ctx['continues'][:-1]
                        else:
                            rest = ctx['continues']
                        for cpc, cenv in reversed(rest):
                            c = self.conj(cpc[ctx['pc_len']:])
                            for k in set(env) | set(cenv):
                                env[k] = mk_ite(c, cenv.get(k, Unknown(f'{k} undefined')),
                                                env.get(k, Unknown(f'{k} undefined')))
                    elif not fell:
                        return False
                    elif len(fr.returns) > nret and body_pc:
                        # an early return inside the body constrains the rest of the function
                        pc.extend(body_pc)
                if not broke and st.orelse:
                    return self.block(st.orelse, env, pc, fr)
                return True
            if any(isinstance(x, (ast.Yield, ast.YieldFrom)) for x in ast.walk(st)):
                fr.gen_unknown = True
            _havoc([st], env, 'loop over symbolic iterable')
            return True
        if isinstance(st, ast.While):
            # a loop whose test folds to a constant each time round (partial evaluation on constants) is run; a
            # symbolic test havocs the variables the loop assigns
            if not _has_loop_jump(st.body) and not st.orelse:
                snapshot = _copy_env(env)
                for _ in range(200):
                    c = truthy(self.expr(st.test, env, fr))
                    if not (isinstance(c, Const) and isinstance(c.v, bool)):
                        break
                    if not c.v:
                        return True
                    nret = len(fr.returns)
                    if not self.block(st.body, env, pc, fr):
                        return False
                    if len(fr.returns) > nret:
                        break          # a conditional return inside the body: give up on the concrete run
                env.clear(); env.update(snapshot)
            if any(isinstance(x, (ast.Yield, ast.YieldFrom)) for x in ast.walk(st)):
                fr.gen_unknown = True
            _havoc([st], env, 'while loop')
            return True
        if isinstance(st, ast.With):
            for it in st.items:
                v = self.expr(it.context_expr, env, fr)
                if it.optional_vars is not None:
                    self.assign(it.optional_vars, v, env, fr)
            return self.block(st.body, env, pc, fr)
        if isinstance(st, ast.Try):
            conv = self._conversion_guard(st, env, fr)
            if conv is not None:
                # try: x = float(v) ... except (ValueError, TypeError): <handler>  ==  if converts(v): ... else: <handler>
                ok = self.branch(conv[0], list(st.body) + list(st.orelse), conv[1].body, env, pc, fr)
                if st.finalbody:
                    ok = self.block(st.finalbody, env, pc, fr) and ok
                return ok
            look = self._lookup_guard(st, env, fr)
            if look is not None:
                # try: x = D[K] ... except KeyError: <handler>  ==  if K in D: ... else: <handler>   (D, K known)
                return self.branch(look[0], list(st.body) + list(st.orelse), look[1].body, env, pc, fr)
            if st.handlers and not st.finalbody and all(
                    len(h.body) == 1 and isinstance(h.body[0], ast.Return) and isinstance(h.body[0].value, ast.Constant)
                    for h in st.handlers):
                # try: ... return X / except E: return <const>  ==  two outcomes gated by an opaque "no exception" atom
                types_ = ','.join(ast.unparse(h.type) if h.type is not None else '*' for h in st.handlers)
                atom = truthy(App('completes_without:' + types_, (Const(f'{fr.fi.qualname}:{st.lineno}'),)))
                return self.branch(atom, list(st.body) + list(st.orelse), st.handlers[0].body, env, pc, fr)
            ok = self.block(st.body, env, pc, fr)
            if ok and st.orelse:
                ok = self.block(st.orelse, env, pc, fr)
            if st.finalbody:
                ok = self.block(st.finalbody, env, pc, fr) and ok
            return ok
        if isinstance(st, (ast.Import, ast.ImportFrom)):
            for a in st.names:
                nm = a.asname or a.name.split('.')[0]
                if isinstance(st, ast.ImportFrom):
                    base = st.module or ''
                    r = self.m.resolve_name(base, a.name) if base in self.m.modules else ('ext', f'{base}.{a.name}')
                    env[nm] = self.ref_of(r)
                else:
                    env[nm] = ExtRef(a.name if a.asname else a.name.split('.')[0])
            return True
        if isinstance(st, (ast.Pass, ast.FunctionDef, ast.Global, ast.Nonlocal, ast.Assert,
                           ast.Delete)):
            if isinstance(st, ast.FunctionDef):
                env[st.name] = LocalFunc(st, env, fr.fi)
            return True
        if isinstance(st, ast.Continue):
            if fr.loops:
                fr.loops[-1]['continues'].append((list(pc), _copy_env(env)))
            return False
        if isinstance(st, ast.Break):
            if fr.loops and 'breaks' in fr.loops[-1]:
                fr.loops[-1]['breaks'].append((list(pc), _copy_env(env)))
            return False
        raise AnalysisError('VG', fr.fi.qualname, f'statement kind {type(st).__name__}')

    def _lookup_guard(self, st, env, fr):
        """(condition, handler) when the try body is one assignment `x = D[K]` of a keyed dictionary with a constant
        key, a handler catches KeyError and there is no finally; None otherwise."""
        if st.finalbody or len(st.body) != 1 or not isinstance(st.body[0], ast.Assign) or \
                not isinstance(st.body[0].value, ast.Subscript):
            return None
        handler = None
        for h in st.handlers:
            names = ['Exception'] if h.type is None else (
                [ast.unparse(e) for e in h.type.elts] if isinstance(h.type, ast.Tuple) else [ast.unparse(h.type)])
            if set(names) & {'KeyError', 'LookupError', 'Exception', 'BaseException'}:
                handler = h
                break
        if handler is None:
            return None
        sub = st.body[0].value
        d = self.expr(sub.value, env, fr)
        k = self.expr(sub.slice, env, fr)
        if not isinstance(d, DictV) or not isinstance(k, Const) or d.has_symbolic():
            return None
        v = d.get(k.v)
        return Const(not (isinstance(v, Const) and v.v == '__absent__')), handler

    def _conversion_guard(self, st, env, fr):
        """(condition, handler) when the first statement of a try body converts a non-numeric value with
        float()/int() and a handler catches the conversion error; None otherwise."""
        if not st.handlers or not st.body:
            return None
        handler = None
        for h in st.handlers:
            names = []
            if h.type is None:
                names = ['Exception']
            elif isinstance(h.type, ast.Tuple):
                names = [ast.unparse(e) for e in h.type.elts]
            else:
                names = [ast.unparse(h.type)]
            if set(names) & {'ValueError', 'TypeError', 'Exception', 'BaseException'}:
                handler = h
                break
        if handler is None:
            return None
        for node in ast.walk(st.body[0]):
            if isinstance(node, ast.Call) and isinstance(node.func, ast.Name) and node.func.id in ('float', 'int') \
                    and len(node.args) == 1 and not node.keywords and node.func.id not in env:
                a = unq(self.expr(node.args[0], env, fr))
                if is_num(a) or (isinstance(a, Const) and isinstance(a.v, (int, float))):
                    return None
                if isinstance(a, (Tup, DictV)):
                    return Const(False), handler       # float(list) always raises TypeError
                if isinstance(a, Const) and isinstance(a.v, str):
                    try:
                        (float if node.func.id == 'float' else int)(a.v)
                        return Const(True), handler
                    except ValueError:
                        return Const(False), handler
                return truthy(App('converts:' + node.func.id, (a,))), handler
        return None

    def branch(self, c, body, orelse, env, pc, fr):
        """two-armed join: body under c, orelse under not c; gated merge of variables and object fields."""
        st = type('S', (), {'body': body, 'orelse': orelse})
        if True:
            if isinstance(c, Const):
                return self.block(st.body if c.v else st.orelse, env, pc, fr)
            e1 = _copy_env(env)
            e2 = _copy_env(env)
            assume_env(e1, c, True)
            assume_env(e2, c, False)
            objs = _reachable_objs(env, fr)
            snap = [(o, dict(o.fields)) for o in objs]
            f1 = self.block(st.body, e1, pc + [c], fr)
            after1 = [dict(o.fields) for o in objs]
            for o, flds in snap:
                o.fields = dict(flds)
            f2 = self.block(st.orelse, e2, pc + [mk_not(c)], fr)
            after2 = [dict(o.fields) for o in objs]
            for o, a1, a2 in zip(objs, after1, after2):
                if f1 and f2:
                    merged = {}
                    for k in set(a1) | set(a2):
                        if k in a1 and k in a2:
                            merged[k] = mk_ite(c, a1[k], a2[k])
                        else:
                            merged[k] = mk_ite(c, a1.get(k, Unknown(f'field {k} unset on one path')),
                                               a2.get(k, Unknown(f'field {k} unset on one path')))
                    o.fields = merged
                elif f1:
                    o.fields = a1
                else:
                    o.fields = a2
            if f1 and f2:
                for k in set(e1) | set(e2):
                    a = e1.get(k, Unknown(f'{k} undefined on one path'))
                    b = e2.get(k, Unknown(f'{k} undefined on one path'))
                    env[k] = mk_ite(c, a, b)
                _merge_objs(env)
                return True
            if f1:
                env.clear(); env.update(e1)
                pc.append(c)
                return True
            if f2:
                env.clear(); env.update(e2)
                pc.append(mk_not(c))
                return True
            return False

    def assign(self, t, v, env, fr):
        if isinstance(t, ast.Name):
            env[t.id] = v
        elif isinstance(t, (ast.Tuple, ast.List)):
            items = _iter_items(v)
            stars = [i for i, e in enumerate(t.elts) if isinstance(e, ast.Starred)]
            if len(stars) == 1 and items is not None and len(items) >= len(t.elts) - 1:
                # a, *rest, z = items
                s0 = stars[0]
                tail = len(t.elts) - s0 - 1
                for e, item in zip(t.elts[:s0], items[:s0]):
                    self.assign(e, item, env, fr)
                self.assign(t.elts[s0].value, Tup(tuple(items[s0:len(items) - tail]), 'list'), env, fr)
                for e, item in zip(t.elts[s0 + 1:], items[len(items) - tail:]):
                    self.assign(e, item, env, fr)
            elif stars:
                for e in t.elts:
                    self.assign(e.value if isinstance(e, ast.Starred) else e,
                                Unknown('starred unpacking of a symbolic sequence'), env, fr)
            elif items is None or len(items) != len(t.elts):
                for i, e in enumerate(t.elts):
                    self.assign(e, _index(v, i), env, fr)
            else:
                for e, item in zip(t.elts, items):
                    self.assign(e, item, env, fr)
        elif isinstance(t, ast.Attribute):
            base = self.expr(t.value, env, fr)
            if isinstance(base, Obj):
                self._store_attr(base, t.attr, v, fr)
            fr.effects.append(('setattr', base, t.attr, v))
        elif isinstance(t, ast.Subscript) and isinstance(t.slice, ast.Slice) and \
                isinstance(t.value, (ast.Name, ast.Attribute)) \
                and isinstance(self.expr(t.value, env, fr), Tup) and isinstance(v, Tup):
            base = self.expr(t.value, env, fr)

            def _store(new):
                if isinstance(t.value, ast.Name):
                    env[t.value.id] = new
                else:
                    holder = self.expr(t.value.value, env, fr)
                    if isinstance(holder, Obj):
                        holder.fields[t.value.attr] = new

            def iv(x):
                if x is None:
                    return None
                r = self.expr(x, env, fr)
                return int(r) if isinstance(r, sp.Integer) else 'sym'
            lo, hi = iv(t.slice.lower), iv(t.slice.upper)
            if 'sym' in (lo, hi) or t.slice.step is not None:
                _store(Unknown('slice assignment with symbolic bounds'))
            else:
                items = list(base.items)
                items[slice(lo, hi)] = list(v.items)
                _store(Tup(tuple(items), base.kind))
        elif isinstance(t, ast.Subscript):
            base = self.expr(t.value, env, fr)
            k = self.expr(t.slice, env, fr)
            if isinstance(base, Tup) and isinstance(k, sp.Integer) and -len(base.items) <= int(k) < len(base.items):
                items = list(base.items)
                items[int(k)] = v
                new = Tup(tuple(items), base.kind)
                if isinstance(t.value, ast.Name):
                    env[t.value.id] = new
                elif isinstance(t.value, ast.Attribute):
                    holder = self.expr(t.value.value, env, fr)
                    if isinstance(holder, Obj):
                        holder.fields[t.value.attr] = new
                fr.effects.append(('setitem', base, k, v))
                return
            if isinstance(base, Obj) and base.ci is not None:
                meth = self.m.method(base.ci, '__setitem__')
                if meth is not None:
                    # obj[k] = v on a repository class that defines __setitem__
                    if meth.qualname in self.hooks:
                        self.hooks[meth.qualname](self, [base, k, v], {})
                    else:
                        self.call(meth, [base, k, v], {}, fr.depth + 1)
                    return
            if isinstance(base, Tup) and isinstance(k, Tup) and all(isinstance(i, sp.Integer) for i in k.items) \
                    and isinstance(v, Tup) and len(v.items) == len(k.items) and isinstance(t.value, ast.Name) \
                    and all(-len(base.items) <= int(i) < len(base.items) for i in k.items):
                # fancy-index assignment a[[i, j]] = [x, y]
                items = list(base.items)
                for i, x in zip(k.items, v.items):
                    items[int(i)] = x
                env[t.value.id] = Tup(tuple(items), base.kind)
                return
            if isinstance(base, DictV) and isinstance(k, Const):
                base.set(k.v, v)
            elif isinstance(t.value, ast.Name):
                env[t.value.id] = App('setitem', (base, k, v))
            fr.effects.append(('setitem', base, k, v))
        elif isinstance(t, ast.Starred):
            self.assign(t.value, v, env, fr)
        else:
            raise AnalysisError('VG', fr.fi.qualname, f'assignment target {type(t).__name__}')

    def _instance_dict(self, base):
        """the instance dictionary of a constructed object as a DictV mirroring its fields."""
        d = base.fields.get('__dict__')
        if not isinstance(d, DictV):
            d = DictV([{}])
            base.fields['__dict__'] = d
        for k, x in base.fields.items():
            if not k.startswith('__') and d.get(k) is not x:
                d.set(k, x)
        return d

    def _store_attr(self, base, attr, v, fr, default=False):
        """obj.attr = v.  With descriptor_sets on: a __setattr__ defined by a repository class of obj's MRO runs
        (unless `default`: the store comes from super().__setattr__ / object.__setattr__ inside it), then the
        repository descriptor's __set__, else the plain instance-dictionary store."""
        if self.descriptor_sets and base.ci is not None:
            if not default and fr.depth <= MAX_DEPTH - 3:
                sa = self.m.method(base.ci, '__setattr__')
                if sa is not None:
                    self.call(sa, [base, Const(attr), v], {}, fr.depth + 1)
                    return
            if self._descriptor_store(base, attr, v, fr):
                return
        base.fields[attr] = v
        d = base.fields.get('__dict__')
        if isinstance(d, DictV):
            d.set(attr, v)

    def _descriptor_store(self, base, attr, v, fr):
        """obj.attr = v where the class declares attr as an instance of a repository descriptor class with a __set__:
        run that __set__ (its raise outcomes reach the storing frame) on a descriptor object built from the class-level
        declaration; the instance dictionary is mirrored in the object's fields. False when not applicable."""
        kind = self.m.descriptor_kind(base.ci, attr)
        dci = self.m.cls(kind) if kind else None
        setf = self.m.method(dci, '__set__') if dci is not None else None
        if setf is None or fr.depth > MAX_DEPTH - 2:
            return False
        decl = None
        for c in base.ci.mro:
            if attr in getattr(c, 'assigns', {}):
                decl, owner = c.assigns[attr], c
                break
        if not isinstance(decl, ast.Call):
            return False
        try:
            a_ = [self.eval_in_module(x, owner.module) for x in decl.args]
            k_ = {k.arg: self.eval_in_module(k.value, owner.module) for k in decl.keywords if k.arg}
            descr = self.construct(dci, a_, k_, fr.depth + 1)
        except AnalysisError:
            return False
        if not isinstance(descr, Obj):
            return False
        descr.fields['name'] = Const(attr)
        d = self._instance_dict(base)
        self.call(setf, [descr, base, v], {}, fr.depth + 1)
        for k in d.keys():
            base.fields[k] = d.get(k)
        return True

    # ------------------------------------------------------ expressions
    def ref_of(self, r):
        k, v = r
        if k == 'class':
            return ClassRef(v, v.name)
        if k == 'func':
            return FuncRef(v, v.qualname)
        if k == 'module':
            return ExtRef(v)
        if k == 'const':
            mi, name = v
            sts = mi.assigns[name]
            if len(sts) == 1 and isinstance(sts[0], ast.Assign):
                return self.eval_in_module(sts[0].value, mi.name)
            # tables built by several module-level statements: partial evaluation (TB)
            from .tb import Opaque, tables
            try:
                pv = tables(self.m, mi.name).env.get(name)
            except AnalysisError:
                pv = None
            tv = self.from_py(pv) if pv is not None else None
            if tv is not None:
                return tv
            return App('global:' + mi.name + '.' + name)
        return ExtRef(v)

    def from_py(self, v):
        from .tb import Opaque
        if isinstance(v, Opaque):
            return None
        if isinstance(v, dict):
            d = {}
            for k, x in v.items():
                t = self.from_py(x)
                if t is None or not isinstance(k, (str, int)):
                    return None
                d[k] = t
            return DictV([d])
        if isinstance(v, tuple) and len(v) == 2 and v[0] == 'cls' and isinstance(v[1], str):
            if self.m.has_cls(v[1]):
                ci = self.m.cls(v[1])
                return ClassRef(ci, ci.name)
            return None
        if isinstance(v, (list, tuple)):
            items = [self.from_py(x) for x in v]
            if any(i is None for i in items):
                return None
            return Tup(tuple(items), 'list' if isinstance(v, list) else 'tuple')
        if isinstance(v, bool) or v is None or isinstance(v, str):
            return Const(v)
        if isinstance(v, (int, float)):
            return num(v)
        return None


    def eval_in_module(self, node, modname):
        fi = FuncInfo('<module>', f'{modname}:<module>', modname, None, None, '')
        fr = Frame(fi, None, 0)
        return self.expr(node, {}, fr)

    def name(self, id_, env, fr):
        if id_ in env:
            return env[id_]
        if id_ in ('True', 'False', 'None'):
            return Const({'True': True, 'False': False, 'None': None}[id_])
        mod = fr.fi.module
        if mod in self.m.modules:
            r = self.m.resolve_name(mod, id_)
            if r[0] != 'ext' or r[1] != id_:
                return self.ref_of(r)
        return ExtRef(id_)

    def expr(self, n, env, fr):
        if isinstance(n, ast.Constant):
            v = n.value
            if isinstance(v, (int, float)) and not isinstance(v, bool):
                return num(v)
            return Const(v)
        if isinstance(n, ast.Name):
            return self.name(n.id, env, fr)
        if isinstance(n, (ast.Tuple, ast.List)):
            items = []
            for e in n.elts:
                if isinstance(e, ast.Starred):
                    sub = _iter_items(self.expr(e.value, env, fr))
                    if sub is None:
                        return Unknown('starred symbolic iterable in literal')
                    items += sub
                else:
                    items.append(self.expr(e, env, fr))
            return Tup(tuple(items), 'list' if isinstance(n, ast.List) else 'tuple')
        if isinstance(n, ast.Dict):
            d = DictV([])
            cur = {}
            for k, v in zip(n.keys, n.values):
                if k is None:
                    if cur:
                        d.layers.append(cur); cur = {}
                    sub = self.expr(v, env, fr)
                    if isinstance(sub, DictV):
                        d.layers += sub.copy().layers
                    else:
                        d.layers.append(sub)
                else:
                    kk = self.expr(k, env, fr)
                    if not isinstance(kk, Const):
                        return App('dict', ())
                    cur[kk.v] = self.expr(v, env, fr)
            if cur or not d.layers:
                d.layers.append(cur)
            return d
        if isinstance(n, ast.Attribute):
            return self.attr(self.expr(n.value, env, fr), n.attr, fr)
        if isinstance(n, ast.BinOp):
            return self.binop(n.op, self.expr(n.left, env, fr), self.expr(n.right, env, fr))
        if isinstance(n, ast.UnaryOp):
            v = self.expr(n.operand, env, fr)
            if isinstance(n.op, ast.Not):
                return mk_not(truthy(v))
            if isinstance(n.op, ast.USub):
                return self.binop(ast.Mult(), sp.Integer(-1), v)
            if isinstance(n.op, ast.UAdd):
                return v
            if isinstance(n.op, ast.Invert):
                if isinstance(v, (Cmp, BoolT, Const)):
                    return mk_not(v)
                return App('invert', (v,))
        if isinstance(n, ast.BoolOp):
            vals = [self.expr(v, env, fr) for v in n.values]
            return self.boolop(n.op, vals, n)
        if isinstance(n, ast.Compare):
            left = self.expr(n.left, env, fr)
            parts = []
            for op, c in zip(n.ops, n.comparators):
                right = self.expr(c, env, fr)
                parts.append(self.compare(op, left, right))
                left = right
            if len(parts) == 1:
                return parts[0]
            if any(isinstance(p_, Const) and p_.v is False for p_ in parts):
                return Const(False)
            parts = [p_ for p_ in parts if not (isinstance(p_, Const) and p_.v is True)]
            if not parts:
                return Const(True)
            return parts[0] if len(parts) == 1 else BoolT('and', tuple(parts))
        if isinstance(n, ast.IfExp):
            c = truthy(self.expr(n.test, env, fr))
            if isinstance(c, Const):
                return self.expr(n.body if c.v else n.orelse, env, fr)
            return mk_ite(c, self.expr(n.body, env, fr), self.expr(n.orelse, env, fr))
        if isinstance(n, ast.Call):
            return self.call_expr(n, env, fr)
        if isinstance(n, ast.Subscript):
            base = self.expr(n.value, env, fr)
            if isinstance(n.slice, ast.Slice):
                lo = self.expr(n.slice.lower, env, fr) if n.slice.lower else None
                hi = self.expr(n.slice.upper, env, fr) if n.slice.upper else None
                stp = self.expr(n.slice.step, env, fr) if n.slice.step else None
                return _slice(base, lo, hi, stp)
            k = self.expr(n.slice, env, fr)
            if isinstance(base, Obj) and base.ci is not None and base.cls == 'PixCoord' and is_num(k) \
                    and isinstance(base.fields.get('x'), Tup) and isinstance(base.fields.get('y'), Tup):
                # an element of a PixCoord array with concrete components (PixCoord.__getitem__ indexes x and y alike;
                # that it does is decided by C20.R2)
                return Obj('PixCoord', {'x': _index(base.fields['x'], k), 'y': _index(base.fields['y'], k)}, None, base.ci)
            return _index(base, k)
        if isinstance(n, ast.Slice):
            lo = self.expr(n.lower, env, fr) if n.lower else Const(None)
            hi = self.expr(n.upper, env, fr) if n.upper else Const(None)
            return App('slice', (lo, hi))
        if isinstance(n, ast.JoinedStr):
            parts = []
            for v in n.values:
                if isinstance(v, ast.Constant):
                    parts.append(Const(v.value))
                else:
                    val = self.expr(v.value, env, fr)
                    if v.format_spec is not None and not (isinstance(val, Const) and isinstance(val.v, str)):
                        val = App('fmt', (val, self.expr(v.format_spec, env, fr)))
                    parts.append(val)
            if all(isinstance(p, Const) and isinstance(p.v, str) for p in parts):
                return Const(''.join(p.v for p in parts))
            return App('fstring', tuple(parts))
        if isinstance(n, ast.Starred):
            return self.expr(n.value, env, fr)
        if isinstance(n, (ast.ListComp, ast.GeneratorExp, ast.SetComp, ast.DictComp, ast.Lambda)):
            return self.comprehension(n, env, fr)
        if isinstance(n, ast.Set):
            return App('set', tuple(self.expr(e, env, fr) for e in n.elts))
        return Unknown(f'expression kind {type(n).__name__}')

    def comprehension(self, n, env, fr):
        if isinstance(n, ast.DictComp) and len(n.generators) == 1:
            g = n.generators[0]
            it = self.expr(g.iter, env, fr)
            items = None
            if isinstance(it, App) and it.name == 'dict.items' and isinstance(it.args[0], DictV) \
                    and not it.args[0].has_symbolic():
                d = it.args[0]
                items = [Tup((Const(k), d.get(k))) for k in d.keys()]
            else:
                items = _iter_items(it)
            if items is not None:
                out = {}
                for item in items:
                    e2 = dict(env)
                    self.assign(g.target, item, e2, fr)
                    keep = True
                    for cnd in g.ifs:
                        c = truthy(self.expr(cnd, e2, fr))
                        if not isinstance(c, Const):
                            return Unknown('dict comprehension with a symbolic condition')
                        keep = keep and bool(c.v)
                    if not keep:
                        continue
                    k = self.expr(n.key, e2, fr)
                    if isinstance(k, Const):
                        out[k.v] = self.expr(n.value, e2, fr)
                    elif isinstance(k, App) and not contains_unknown(k):
                        out[TermKey(show(k, 10 ** 6))] = self.expr(n.value, e2, fr)     # an opaque object used as a key
                    elif _tuple_key(k) is not None:
                        out[_tuple_key(k)] = self.expr(n.value, e2, fr)                 # a tuple of constants
                    else:
                        return Unknown('dict comprehension with symbolic key')
                return DictV([out])
        if isinstance(n, ast.SetComp):
            as_list = ast.ListComp(elt=n.elt, generators=n.generators)
            ast.copy_location(as_list, n)
            r = self.comprehension(as_list, env, fr)
            if isinstance(r, Tup) and all(isinstance(i, Const) for i in r.items):
                uniq = []
                for i in r.items:
                    if not any(u_.v == i.v for u_ in uniq):
                        uniq.append(i)
                return Tup(tuple(uniq), 'set')
            return Unknown('set comprehension over symbolic values')
        if isinstance(n, (ast.ListComp, ast.GeneratorExp)):
            # a generator over finite iterables is consumed once by its user (unpacking, tuple(), join, ...):
            # its element sequence is the list comprehension's
            out = []

            def rec(gi, e):
                if gi == len(n.generators):
                    out.append(self.expr(n.elt, e, fr))
                    return True
                g = n.generators[gi]
                itv = self.expr(g.iter, e, fr)
                if isinstance(itv, GenV):
                    itv, ab = self.drain(itv, fr)      # a repository generator consumed by the comprehension
                    if ab:
                        raise Aborted()
                items = _iter_items(itv)
                if items is None:
                    return False
                for it in items:
                    e2 = dict(e)
                    self.assign(g.target, it, e2, fr)
                    keep = True
                    for cnd in g.ifs:
                        c = truthy(self.expr(cnd, e2, fr))
                        if not isinstance(c, Const):
                            return False
                        keep = keep and c.v
                    if keep and not rec(gi + 1, e2):
                        return False
                return True
            if rec(0, dict(env)):
                return Tup(tuple(out), 'list')
        return Unknown(f'{type(n).__name__} over symbolic iterable')

    def boolop(self, op, vals, node=None):
        isand = isinstance(op, ast.And)
        # value semantics of and/or with the x or Empty() idiom
        if not isand and len(vals) == 2 and isinstance(vals[1], DictV) and \
                not vals[1].has_symbolic() and not vals[1].keys():
            c0 = truthy(vals[0])
            if isinstance(c0, Const) and isinstance(c0.v, bool):
                return vals[0] if c0.v else vals[1]      # a falsy first operand (None, 0, '', [], {}) gives the empty mapping
            return vals[0] if not (isinstance(vals[0], Const) and vals[0].v is None) else vals[1]
        if len(vals) == 2 and not any(isinstance(v, (Cmp, BoolT)) or (isinstance(v, Const) and isinstance(v.v, bool))
                                      for v in vals) and any(isinstance(v, (Obj, DictV, Tup)) for v in vals):
            # value semantics: `a or b` is a when a is truthy, else b (`a and b`: b when a is truthy, else a)
            c = truthy(vals[0])
            if isinstance(c, Const):
                return (vals[1] if c.v else vals[0]) if isand else (vals[0] if c.v else vals[1])
            return mk_ite(c, vals[1], vals[0]) if isand else mk_ite(c, vals[0], vals[1])
        ts = [truthy(v) for v in vals]
        if all(isinstance(v, (Cmp, BoolT, Const)) for v in vals) or True:
            out = []
            for t, v in zip(ts, vals):
                if isinstance(t, Const):
                    if t.v == isand:
                        continue          # neutral element
                    return v if not isinstance(v, (Cmp, BoolT)) and not out else (
                        Const(t.v) if not out else BoolT('and' if isand else 'or', tuple(out + [Const(t.v)])))
                out.append(t)
            if not out:
                return Const(isand)
            if len(out) == 1:
                return out[0]
            return BoolT('and' if isand else 'or', tuple(out))

    def compare(self, op, a, b):
        if isinstance(op, (ast.Eq, ast.NotEq, ast.In, ast.NotIn)) and (isinstance(a, Tup) or isinstance(b, Tup)):
            # constant folding on Python constants (lists/tuples of strings and numbers)
            pa, pb = _py_const(a), _py_const(b)
            if pa is not _NOCONST and pb is not _NOCONST:
                try:
                    r = {ast.Eq: lambda: pa == pb, ast.NotEq: lambda: pa != pb, ast.In: lambda: pa in pb,
                         ast.NotIn: lambda: pa not in pb}[type(op)]()
                    return Const(bool(r))
                except TypeError:
                    pass
        if isinstance(a, Ite) and (isinstance(b, Const) or (
                isinstance(a.a, Const) and isinstance(a.b, (Const, Ite)))):
            return mk_ite(a.cond, self.compare(op, a.a, b), self.compare(op, a.b, b))
        if isinstance(op, (ast.Is, ast.IsNot)):
            pos = isinstance(op, ast.Is)
            if isinstance(a, Const) and isinstance(b, Const):
                return Const((a.v is b.v) == pos)
            if isinstance(b, Const) and b.v is None and isinstance(
                    a, (Obj, DictV, Tup, sp.Basic, ClassRef, FuncRef)):
                if not (isinstance(a, Obj) and a.path is not None and a.cls == 'opaque'):
                    return Const(not pos)
            if same(a, b):
                return Const(pos)
            if isinstance(a, ExtRef) and isinstance(b, ExtRef) and a.name != b.name \
                    and all(r_.name.startswith('operator.') and '__' not in r_.name for r_ in (a, b)):
                return Const(not pos)          # two differently named functions of the operator module are two objects
            if isinstance(b, Const) and b.v is None and isinstance(a, App) and (
                    a.name in ('copy', 'setitem', 'dict.updated', 'dict.without', 'to') or a.name in NEVER_NONE or (
                        a.name == 'apply' and a.args and isinstance(a.args[0], App)
                        and a.args[0].name in ('attr:copy', 'attr:deepcopy'))):
                return Const(not pos)          # the result of copying / updating a mapping is a mapping, never None
            if isinstance(b, Const) and b.v is None and isinstance(a, Ite):
                l_, r_ = self.compare(op, a.a, b), self.compare(op, a.b, b)
                if isinstance(l_, Const) and isinstance(r_, Const) and l_.v == r_.v:
                    return l_
            return Cmp('is' if pos else 'isnot', a, b)
        if isinstance(op, (ast.In, ast.NotIn)):
            pos = isinstance(op, ast.In)
            if isinstance(a, Const) and isinstance(b, Tup) and all(isinstance(i, Const) for i in b.items):
                return Const((a.v in [i.v for i in b.items]) == pos)
            if isinstance(a, Const) and isinstance(b, DictV) and not b.has_symbolic():
                return Const((a.v in b.keys()) == pos)
            if isinstance(a, App) and not contains_unknown(a) and isinstance(b, DictV) and not b.has_symbolic() \
                    and any(isinstance(k_, TermKey) for k_ in b.keys()):
                return Const((TermKey(show(a, 10 ** 6)) in b.keys()) == pos)
            if isinstance(a, Const) and isinstance(b, Const) and isinstance(b.v, str) and isinstance(a.v, str):
                return Const((a.v in b.v) == pos)
            return Cmp('in' if pos else 'notin', a, b)
        if isinstance(op, (ast.Eq, ast.NotEq)) and isinstance(a, Obj) and getattr(a, 'truth', None) is True \
                and isinstance(b, Const) and b.v == '':
            return Const(isinstance(op, ast.NotEq))
        if isinstance(op, (ast.Eq, ast.NotEq)):
            for x, y in ((a, b), (b, a)):
                if isinstance(x, Const) and (x.v is None or isinstance(x.v, str)) and is_num(y) and y.is_number:
                    return Const(isinstance(op, ast.NotEq))      # None / a string never equals a number
        if isinstance(a, Const) and isinstance(b, Const):
            try:
                r = {ast.Eq: a.v == b.v, ast.NotEq: a.v != b.v}.get(type(op))
                if r is None:
                    r = {ast.Lt: a.v < b.v, ast.LtE: a.v <= b.v, ast.Gt: a.v > b.v,
                         ast.GtE: a.v >= b.v}[type(op)]
                return Const(bool(r))
            except Exception:
                pass
        if isinstance(op, (ast.Eq, ast.NotEq)):
            pos = isinstance(op, ast.Eq)
            if is_num(a) and is_num(b) and a.is_number and b.is_number:
                return Const((sp.simplify(a - b) == 0) == pos)
            if isinstance(a, Const) != isinstance(b, Const) and (
                    isinstance(a, (Tup, DictV)) or isinstance(b, (Tup, DictV))):
                # e.g. regions == () for a list value
                if isinstance(a, Tup) and isinstance(b, Tup):
                    pass
            if isinstance(a, Tup) and isinstance(b, Tup) and len(a.items) != len(b.items):
                return Const(not pos)
            return Cmp('==' if pos else '!=', a, b)
        if is_num(a) and is_num(b) and a.is_number and b.is_number:
            r = {ast.Lt: a < b, ast.LtE: a <= b, ast.Gt: a > b, ast.GtE: a >= b}[type(op)]
            if r in (sp.true, sp.false):
                return Const(bool(r))
        if isinstance(op, ast.Lt):
            return Cmp('<', a, b)
        if isinstance(op, ast.LtE):
            return Cmp('<=', a, b)
        if isinstance(op, ast.Gt):
            return Cmp('<', b, a)
        if isinstance(op, ast.GtE):
            return Cmp('<=', b, a)
        return Unknown('comparison')

    def binop(self, op, a, b):
        a, b = unq(a), unq(b)
        u = is_unknown(a) and a or (is_unknown(b) and b)
        if u:
            return u
        if isinstance(a, Obj) and a.ci is not None and isinstance(b, Obj) and a.cls != 'PixCoord':
            dn = {ast.BitOr: '__or__', ast.BitAnd: '__and__', ast.BitXor: '__xor__',
                  ast.Add: '__add__', ast.Sub: '__sub__'}.get(type(op))
            f = self.m.method(a.ci, dn) if dn else None
            if f is not None:
                return self.call(f, [a, b], {}, 3)
        if isinstance(op, (ast.BitAnd, ast.BitOr, ast.BitXor)):
            def _int01(x):
                if isinstance(x, Const) and isinstance(x.v, bool):
                    return int(x.v)
                if isinstance(x, sp.Integer):
                    return int(x)
                return None
            ia, ib = _int01(a), _int01(b)
            if ia is not None and ib is not None and (isinstance(a, sp.Integer) or isinstance(b, sp.Integer)):
                # int ^ bool, int & int, ...: Python integer arithmetic (the result is an int)
                return sp.Integer({ast.BitAnd: ia & ib, ast.BitOr: ia | ib, ast.BitXor: ia ^ ib}[type(op)])
            if isinstance(a, (Cmp, BoolT, Const, Ite)) and isinstance(b, (Cmp, BoolT, Const, Ite)):
                return BoolT({ast.BitAnd: 'and', ast.BitOr: 'or', ast.BitXor: 'xor'}[type(op)], (a, b))
            return App({ast.BitAnd: 'bitand', ast.BitOr: 'bitor', ast.BitXor: 'bitxor'}[type(op)], (a, b))
        if isinstance(op, ast.LShift):
            # value << unit  (astropy): attach unit
            if is_num(a) and is_num(b):
                return a * b
        if isinstance(a, Tup) and isinstance(b, Tup) and isinstance(op, ast.Add) and \
                a.kind != 'array' and b.kind != 'array':
            return Tup(a.items + b.items, a.kind)
        if isinstance(a, Const) and isinstance(b, Const) and isinstance(a.v, str) and \
                isinstance(b.v, str) and isinstance(op, ast.Add):
            return Const(a.v + b.v)
        if isinstance(op, ast.Mult) and isinstance(a, Tup) and a.kind in ('list', 'tuple') and isinstance(b, sp.Integer):
            return Tup(a.items * int(b), a.kind)
        if isinstance(a, Tup) or isinstance(b, Tup):
            return _broadcast(lambda x, y: self.binop(op, x, y), a, b)
        if isinstance(a, Obj) and a.cls == 'PixCoord' and isinstance(b, Obj) and b.cls == 'PixCoord' \
                and isinstance(op, (ast.Add, ast.Sub)):
            f = self.m.method(self.m.cls('PixCoord'), '__add__' if isinstance(op, ast.Add) else '__sub__')
            if f:
                return self.call(f, [a, b], {}, 2)
        if is_num(a) and is_num(b):
            try:
                if isinstance(op, ast.Add):
                    return a + b
                if isinstance(op, ast.Sub):
                    return a - b
                if isinstance(op, ast.Mult):
                    return a * b
                if isinstance(op, ast.Div):
                    return a / b
                if isinstance(op, ast.Pow):
                    return a ** b
                if isinstance(op, ast.Mod):
                    return sp.Mod(a, b)
                if isinstance(op, ast.FloorDiv):
                    return sp.floor(a / b)
            except Exception as exc:  # pragma: no cover
                return Unknown(f'arithmetic: {exc}')
        if isinstance(op, (ast.Add, ast.Sub)) and is_num(b) and b == 0 and isinstance(a, App):
            return a
        if isinstance(op, ast.Add) and is_num(a) and a == 0 and isinstance(b, App):
            return b
        if isinstance(op, (ast.Mult, ast.Div)) and is_num(b) and b == 1 and isinstance(a, App):
            return a
        if isinstance(a, Ite) or isinstance(b, Ite):
            if isinstance(a, Ite):
                return mk_ite(a.cond, self.binop(op, a.a, b), self.binop(op, a.b, b))
            return mk_ite(b.cond, self.binop(op, a, b.a), self.binop(op, a, b.b))
        return App('binop:' + type(op).__name__, (a, b))

    # ------------------------------------------------------- attributes
    def attr(self, base, attr, fr):
        if is_unknown(base):
            return base
        if isinstance(base, Obj):
            if attr == '__dict__' and self.descriptor_sets and base.ci is not None and base.path is None:
                return self._instance_dict(base)
            if attr in base.fields:
                return base.fields[attr]
            ci = base.ci
            if base.cls == 'PixCoord' and attr in ('xy', 'isscalar') or \
                    (ci is not None and base.path is None):
                if ci is not None:
                    r = self.m.lookup(ci, attr)
                    if r is not None and r[1] == 'method':
                        if r[2].is_property:
                            return self.call(r[2], [base], {}, fr.depth + 1)
                        if r[2].is_static:
                            return FuncRef(r[2], r[2].qualname, None)
                        if r[2].is_classmethod:
                            return FuncRef(r[2], r[2].qualname, ClassRef(ci, ci.name))
                        return FuncRef(r[2], r[2].qualname, base)
                    if r is not None and r[1] == 'assign':
                        if self.m.descriptor_kind(ci, attr):
                            return Unknown(f'unset descriptor field {attr} on constructed {base.cls}')
                        return self.eval_in_module(r[2], r[0].module)
                if attr == '__class__' and ci is not None:
                    return ClassRef(ci, ci.name)
            if base.path is not None:
                v = self.leaf_attr(base, attr)
                return v
            if attr == '__class__' and ci is not None:
                return ClassRef(ci, ci.name)
            return App('attr:' + attr, (base,))
        if isinstance(base, ExtRef):
            if base.name == 'astropy.units' and attr in UNIT:
                return UNIT[attr]
            if base.name in ('numpy', 'math') and attr == 'pi':
                return sp.pi
            if base.name == 'string':
                import string as _string
                v = getattr(_string, attr, None)
                if isinstance(v, str):
                    return Const(v)          # string.digits, string.ascii_lowercase, ...: stdlib constants
            return ExtRef(f'{base.name}.{attr}')
        if isinstance(base, ClassRef):
            r = self.m.lookup(base.ci, attr)
            if r is not None:
                if r[1] == 'method':
                    return FuncRef(r[2], r[2].qualname,
                                   base if r[2].is_classmethod else None)
                return self.eval_in_module(r[2], r[0].module)
            if attr == '__name__':
                return Const(base.name)
            return App('attr:' + attr, (base,))
        if isinstance(base, Tup) and attr == 'T':
            return _transpose(base)
        if isinstance(base, Tup) and attr == 'size' and all(not isinstance(i, Tup) for i in base.items):
            return sp.Integer(len(base.items))
        if isinstance(base, Ite):
            return mk_ite(base.cond, self.attr(base.a, attr, fr), self.attr(base.b, attr, fr))
        if isinstance(base, App) and base.name == 'to' and attr == 'value':
            return (base.args[0] / base.args[1]).subs(ANG, 1)
        if is_num(base):
            if attr == 'value':
                # the number stored in the quantity's *own* unit: depends on the unit it was given in
                return base / sp.Symbol(f'unit[{base}]', positive=True)
            if attr in ('x', 'y') and isinstance(base, sp.Symbol):
                return sym(f'{base.name}.{attr}')
        return App('attr:' + attr, (base,))

    # ------------------------------------------------------------ calls
    def call_expr(self, n, env, fr):
        args = []
        for a in n.args:
            if isinstance(a, ast.Starred):
                v = self.expr(a.value, env, fr)
                items = _iter_items(v)
                if items is None:
                    return Unknown(f'*args of symbolic value in {ast.unparse(n)[:60]}')
                args += items
            else:
                args.append(self.expr(a, env, fr))
        kwargs = {}
        for k in n.keywords:
            v = self.expr(k.value, env, fr)
            if k.arg is None:
                if isinstance(v, DictV) and not v.has_symbolic():
                    for kk in v.keys():
                        kwargs[kk] = v.get(kk)
                else:
                    kwargs['**'] = v
            else:
                kwargs[k.arg] = v
        if any(isinstance(a, GenV) for a in args) and (
                (isinstance(n.func, ast.Name) and n.func.id in GEN_CONSUMERS) or
                (isinstance(n.func, ast.Attribute) and n.func.attr in GEN_CONSUMER_METHODS)) \
                and not self._callee_in_repo(n, env, fr):
            # a builtin / container method consumes the generator: it sees what was yielded before a raise
            abort = False
            for i, a in enumerate(args):
                if isinstance(a, GenV):
                    args[i], ab = self.drain(a, fr)
                    abort = abort or ab
            r = self._call_expr(n, env, fr, args, kwargs)
            if abort:
                raise Aborted()
            return r
        return self._call_expr(n, env, fr, args, kwargs)

    def _call_expr(self, n, env, fr, args, kwargs):
        # super().method(...)
        if isinstance(n.func, ast.Attribute) and isinstance(n.func.value, ast.Call) and \
                isinstance(n.func.value.func, ast.Name) and n.func.value.func.id == 'super' \
                and fr.fi.cls and fr.self_obj is not None:
            here = self.m.modules[fr.fi.module].classes.get(fr.fi.cls)
            inst = getattr(fr.self_obj, 'ci', None) or here
            mro = inst.mro if here in inst.mro else here.mro
            for c in mro[mro.index(here) + 1:]:
                if n.func.attr in c.methods:
                    return self.call(c.methods[n.func.attr], [fr.self_obj] + args, kwargs, fr.depth + 1)
            if n.func.attr == '__setattr__' and len(args) == 2 and isinstance(args[0], Const) \
                    and isinstance(args[0].v, str) and isinstance(fr.self_obj, Obj):
                # object.__setattr__: the default store (data descriptors of the class first)
                self._store_attr(fr.self_obj, args[0].v, args[1], fr, default=True)
                fr.effects.append(('setattr', fr.self_obj, args[0].v, args[1]))
                return Const(None)
            if 'super:' + n.func.attr in self.hooks:
                # a base class outside the repository (dict, list, ...): let the rule observe the call and its path condition
                pc_now = [c for _, pc_ in self._stack for c in pc_]   # the callers' conditions too
                return self.hooks['super:' + n.func.attr](self, [fr.self_obj] + args, dict(kwargs, __pc__=pc_now))
            return Const(None)
        # method call on a value
        if isinstance(n.func, ast.Attribute):
            base = self.expr(n.func.value, env, fr)
            if isinstance(base, Ite) and isinstance(n.func.value, ast.Name) and n.func.attr == 'append' \
                    and len(args) == 1:
                r = _append_ite(base, args[0])
                if r is not None:
                    env[n.func.value.id] = r
                    return Const(None)
            if isinstance(base, Tup) and base.kind == 'list' and isinstance(n.func.value, ast.Name) \
                    and n.func.attr in ('append', 'extend') and len(args) == 1:
                if n.func.attr == 'append':
                    env[n.func.value.id] = Tup(base.items + (args[0],), 'list')
                    return Const(None)
                items = _iter_items(args[0])
                if items is not None:
                    env[n.func.value.id] = Tup(base.items + tuple(items), 'list')
                    return Const(None)
                env[n.func.value.id] = Unknown('list extended by symbolic iterable')
                return Const(None)
            if isinstance(base, Tup) and base.kind == 'list' and isinstance(n.func.value, ast.Name) \
                    and n.func.attr == 'insert' and len(args) == 2 and isinstance(args[0], sp.Integer):
                k = int(args[0])
                items = list(base.items)
                items.insert(k, args[1])
                env[n.func.value.id] = Tup(tuple(items), 'list')
                return Const(None)
            if isinstance(base, Tup) and base.kind == 'set' and n.func.attr == 'pop' and not args \
                    and len(base.items) == 1 and isinstance(n.func.value, ast.Name):
                env[n.func.value.id] = Tup((), 'set')
                return base.items[0]
            if isinstance(base, (App, Ite)) and isinstance(n.func.value, ast.Name) and n.func.attr in ('update', 'pop') \
                    and not (isinstance(base, App) and (base.name.startswith('astropy.') or base.name in ('copy',))) \
                    and not (isinstance(base, Ite) and any(isinstance(x, (DictV, Tup, Obj)) for x in (base.a, base.b))):
                # an opaque mapping held in a local name (the result of an external call): keep the order of what is
                # done to it — X.update(Y) / X.pop(k) rebind X to a term recording the operation
                if n.func.attr == 'update' and len(args) == 1 and not kwargs:
                    env[n.func.value.id] = App('dict.updated', (base, args[0]))
                    return Const(None)
                if n.func.attr == 'pop' and args:
                    env[n.func.value.id] = App('dict.without', (base, args[0]))
                    return App('lookup', (Tup((base,)), args[0], args[1] if len(args) > 1 else Const(None)))
            if isinstance(base, Tup) and base.kind == 'list' and isinstance(n.func.value, ast.Attribute) \
                    and n.func.attr in ('append', 'extend', 'insert'):
                # obj.attr.append(x) / extend(xs) / insert(i, x) on a list held in an object field: rebind the field
                holder = self.expr(n.func.value.value, env, fr)
                new_items = None
                if n.func.attr == 'append' and len(args) == 1:
                    new_items = base.items + (args[0],)
                elif n.func.attr == 'extend' and len(args) == 1:
                    more = _iter_items(args[0])
                    new_items = base.items + tuple(more) if more is not None else None
                elif n.func.attr == 'insert' and len(args) == 2 and isinstance(args[0], sp.Integer):
                    lst = list(base.items)
                    lst.insert(int(args[0]), args[1])
                    new_items = tuple(lst)
                if isinstance(holder, Obj) and new_items is not None and holder.fields.get(n.func.value.attr) is base:
                    holder.fields[n.func.value.attr] = Tup(new_items, 'list')
                    fr.effects.append(('setattr', holder, n.func.value.attr, holder.fields[n.func.value.attr]))
                    return Const(None)
            if isinstance(base, Tup) and base.kind == 'list' and isinstance(n.func.value, ast.Subscript) \
                    and n.func.attr in ('append', 'extend') and len(args) == 1:
                # d[k].append(x) on a keyed dict value: rebind the entry
                holder = self.expr(n.func.value.value, env, fr)
                key = self.expr(n.func.value.slice, env, fr)
                more = (args[0],) if n.func.attr == 'append' else _iter_items(args[0])
                if isinstance(holder, DictV) and isinstance(key, Const) and more is not None:
                    holder.set(key.v, Tup(base.items + tuple(more), 'list'))
                    return Const(None)
            r = self.method_call(base, n.func.attr, args, kwargs, fr, n)
            if r is not NotImplemented:
                return r
            f = self.attr(base, n.func.attr, fr)
        else:
            f = self.expr(n.func, env, fr)
        return self.apply(f, args, kwargs, fr, n)

    def apply(self, f, args, kwargs, fr, node=None):
        if is_unknown(f):
            return f
        if isinstance(f, FuncRef):
            if f.qual in self.hooks:
                return self.hooks[f.qual](self, ([f.bound] if f.bound is not None else []) + args, kwargs)
            if f.qual in self.opaque or (f.fi.path.endswith('.pyx')
                                         and not fr.fi.path.endswith('.pyx')):
                return App('call:' + f.fi.name, tuple(args) + tuple(
                    Tup((Const(k), v)) for k, v in sorted(kwargs.items())))
            if f.fi.is_abstract and f.qual not in self.hooks:
                return App('method:' + f.fi.name, tuple(
                    ([f.bound] if f.bound is not None else []) + args) + tuple(
                    Tup((Const(k), v)) for k, v in sorted(kwargs.items())))
            a = ([f.bound] if f.bound is not None else []) + args
            if _is_generator(f.fi.node):
                return GenV(f.fi, a, dict(kwargs), fr.depth + 1)
            return self.call(f.fi, a, kwargs, fr.depth + 1)
        if isinstance(f, ClassRef):
            if f.name in self.hooks:
                return self.hooks[f.name](self, args, kwargs)
            return self.construct(f.ci, args, kwargs, fr.depth)
        if isinstance(f, LocalFunc):
            a = f.node.args
            names = [x.arg for x in a.posonlyargs + a.args]
            if a.vararg or a.kwarg or a.kwonlyargs or len(args) > len(names) or fr.depth > MAX_DEPTH:
                return Unknown(f'call of local function {f.node.name} not modelled')
            e2 = dict(f.env)
            defaults = [None] * (len(names) - len(a.defaults)) + list(a.defaults)
            for i, nm in enumerate(names):
                if i < len(args):
                    e2[nm] = args[i]
                elif nm in kwargs:
                    e2[nm] = kwargs[nm]
                elif defaults[i] is not None:
                    e2[nm] = self.expr(defaults[i], f.env, fr)
                else:
                    return Unknown(f'missing argument {nm} of local function {f.node.name}')
            fr2 = Frame(f.fi, fr.self_obj, fr.depth + 1)
            pc2 = []
            self._stack.append((fr2, pc2))
            try:
                fell = self.block(f.node.body, e2, pc2, fr2)
            finally:
                self._stack.pop()
            if fell:
                fr2.returns.append((list(pc2), Const(None)))
            out = Outcome(fr2.returns, fr2.raises, e2)
            out.fell_through = fell
            return self.gated_return(out)
        if isinstance(f, ExtRef):
            if f.name.split('.')[-1] in ('Quantity', 'Angle') and node is not None and getattr(node, 'args', None):
                a0 = node.args[0]
                if isinstance(a0, ast.Attribute) and isinstance(a0.value, ast.Name) and a0.value.id in ('u', 'units') \
                        and a0.attr in UNIT and len(node.args) > 1:
                    # Quantity(unit, value): the value comes first — astropy raises TypeError
                    return Unknown(f'{f.name}({ast.unparse(a0)}, ...): a unit where the value belongs')
            return self.prim(f.name, args, kwargs, fr)
        if isinstance(f, App):
            return App('apply', (f,) + tuple(args) + tuple(
                Tup((Const(k), v)) for k, v in sorted(kwargs.items())))
        if isinstance(f, Ite):
            return mk_ite(f.cond, self.apply(f.a, args, kwargs, fr), self.apply(f.b, args, kwargs, fr))
        return Unknown(f'call of {type(f).__name__}')

    def method_call(self, base, meth, args, kwargs, fr, node):
        if is_unknown(base):
            return base
        if isinstance(base, Tup) and meth == 'index' and len(args) == 1 and isinstance(args[0], Const) \
                and all(isinstance(i, Const) for i in base.items):
            vals_ = [i.v for i in base.items]
            if args[0].v in vals_:
                return sp.Integer(vals_.index(args[0].v))      # position of a constant in a constant sequence
        if isinstance(base, Obj) and isinstance(base.fields.get('__items__'), Tup) and meth in ('append', 'extend') \
                and len(args) == 1:
            cur = base.fields['__items__']
            if meth == 'append':
                base.fields['__items__'] = Tup(cur.items + (args[0],), 'list')
            else:
                more = _iter_items(args[0])
                base.fields['__items__'] = Tup(cur.items + tuple(more), 'list') if more is not None else \
                    Unknown('list extended by symbolic iterable')
            return Const(None)
        if 'method:' + meth in self.hooks:
            r = self.hooks['method:' + meth](self, [base] + list(args), kwargs)
            if r is not NotImplemented:
                return r
        if isinstance(base, Ite) and isinstance(base.a, Const) and meth in ('lower', 'upper', 'replace', 'strip', 'startswith'):
            ra = self.method_call(base.a, meth, args, kwargs, fr, node)
            rb = self.method_call(base.b, meth, args, kwargs, fr, node)
            if ra is not NotImplemented and rb is not NotImplemented:
                return mk_ite(base.cond, ra, rb)
        if isinstance(base, Obj) and base.cls in ('regex', 'rematch'):
            r = _fold_regex_method(base, meth, args)
            if r is not NotImplemented:
                return r
        if isinstance(base, Const) and isinstance(base.v, str):
            cargs = [x for x in (_py_const(a) for a in args) if x is not _NOCONST]
            if len(cargs) == len(args) and not kwargs and meth in (
                    'lower', 'upper', 'replace', 'strip', 'lstrip', 'rstrip', 'startswith', 'endswith',
                    'split', 'title', 'capitalize', 'isdigit', 'find', 'count', 'partition', 'rpartition',
                    'rsplit', 'removeprefix', 'removesuffix', 'isalpha', 'isidentifier', 'casefold', 'index'):
                try:
                    r = getattr(base.v, meth)(*cargs)
                except Exception:
                    return Unknown(f'str.{meth} failed')
                if isinstance(r, list):
                    return Tup(tuple(Const(x) for x in r), 'list')
                if isinstance(r, tuple):
                    return Tup(tuple(Const(x) for x in r))
                if isinstance(r, bool) or isinstance(r, str):
                    return Const(r)
                return sp.Integer(r)
            if meth == 'join' and len(args) == 1:
                items = _iter_items(args[0])
                if items is not None and all(isinstance(i, Const) and isinstance(i.v, str) for i in items):
                    return Const(base.v.join(i.v for i in items))
            if meth == 'format':
                return App('str.format', (base,) + tuple(args) + tuple(
                    Tup((Const(k), v)) for k, v in sorted(kwargs.items(), key=lambda kv: kv[0]) if k != '**') + (
                    (kwargs['**'],) if '**' in kwargs else ()))
        if isinstance(base, DictV):
            if meth == 'update':
                for a in args:
                    if (isinstance(a, Const) and a.v in ('', None)) or (isinstance(a, Tup) and not a.items):
                        continue          # updating with an empty iterable changes nothing
                    if isinstance(a, DictV):
                        base.layers += a.copy().layers
                    elif isinstance(a, Tup) and all(isinstance(p_, Tup) and len(p_.items) == 2 and isinstance(p_.items[0], Const)
                                                    for p_ in a.items):
                        base.layers.append({p_.items[0].v: p_.items[1] for p_ in a.items})     # update(pairs)
                    else:
                        base.layers.append(a)
                if kwargs:
                    base.layers.append(dict(kwargs))
                return Const(None)
            if meth == 'copy':
                return base.copy()
            if meth in ('get', 'pop', 'setdefault') and args and isinstance(args[0], Const):
                v = base.get(args[0].v)
                dflt = args[1] if len(args) > 1 else Const(None)
                if v is None:
                    srcs = base.symbolic_sources(args[0].v)
                    r = App('lookup', (Tup(tuple(srcs)), args[0], dflt))
                    if meth == 'pop':
                        base.pop(args[0].v)
                    elif meth == 'setdefault':
                        base.set(args[0].v, r)
                    return r
                if isinstance(v, Const) and v.v == '__absent__':
                    if meth == 'setdefault':
                        base.set(args[0].v, dflt)
                    return dflt
                if meth == 'pop':
                    base.pop(args[0].v)
                return v
            if meth in ('items', 'keys', 'values'):
                return App('dict.' + meth, (base.copy(),))
        if isinstance(base, Obj) and isinstance(base.fields.get('__data__'), DictV) and meth in ('items', 'keys', 'values') \
                and not args:
            # a mapping object whose entries the rule supplied (keyed record)
            return App('dict.' + meth, (base.fields['__data__'].copy(),))
        if isinstance(base, Obj) and isinstance(base.fields.get('__data__'), DictV) and meth == 'get' and args \
                and isinstance(args[0], Const) and not base.fields['__data__'].has_symbolic():
            v = base.fields['__data__'].get(args[0].v)
            if isinstance(v, Const) and v.v == '__absent__':
                return args[1] if len(args) > 1 else Const(None)
            if v is not None:
                return v
        if isinstance(base, Obj) and base.cls in ('RegionMeta', 'RegionVisual') and base.path:
            if meth == 'get':
                return App('meta.get', (base,) + tuple(args))
            if meth == 'copy':
                return App('copy', (base,))
            if meth == 'define_mpl_kwargs':
                return DictV([App('define_mpl_kwargs', (base,) + tuple(args))])
        if isinstance(base, App) and meth == 'get' and base.name in ('copy',):
            return App('meta.get', base.args + tuple(args))
        if isinstance(base, App) and meth == 'copy' and base.name in ('copy',):
            return base
        if isinstance(base, Tup):
            if meth == 'append' and isinstance(node.func.value, ast.Name):
                # handled by caller through env rebinding
                return NotImplemented
            if meth == 'transpose':
                return _transpose(base)
            if meth == 'astype' and len(args) == 1 and all(is_num(i) and i.is_number for i in base.items):
                return base            # numbers stay numbers (dtype is not modelled)
            if meth in ('mean', 'sum', 'min', 'max') and not args and not kwargs and base.items \
                    and all(is_num(i) for i in base.items):
                if meth in ('min', 'max'):
                    return (sp.Min if meth == 'min' else sp.Max)(*base.items)
                tot = sum(base.items, sp.Integer(0))
                return tot / len(base.items) if meth == 'mean' else tot
        if is_num(base):
            if meth == 'to' and args:
                u = args[0]
                if isinstance(u, Const) and u.v in UNIT:
                    u = UNIT[u.v]
                if is_num(u):
                    return _Q(base, u)
            if meth == 'to_value' and len(args) == 1 and not kwargs:
                # q.to_value(U) is q.to(U).value
                u = args[0]
                if isinstance(u, Const) and u.v in UNIT:
                    u = UNIT[u.v]
                if is_num(u):
                    return (base / u).subs(ANG, 1)
            if meth == 'is_integer' and not args and base.is_number:
                return Const(float(base) == int(float(base)))
            if meth in ('item', 'copy', 'astype', 'flatten', 'ravel') :
                return base if meth in ('item', 'copy') else App('meth:' + meth, (base,) + tuple(args))
            if meth in ('min', 'max', 'mean') and not args:
                return sp.Function('arr_' + meth)(base)
        if isinstance(base, App) and base.name == 'to':
            if meth in ('to', 'to_value') and len(args) == 1:
                u = args[0]
                if isinstance(u, Const) and u.v in UNIT:
                    u = UNIT[u.v]
                if is_num(u):
                    return _Q(base.args[0], u) if meth == 'to' else (base.args[0] / u).subs(ANG, 1)
        return NotImplemented

    # ------------------------------------------------------- primitives
    def prim(self, name, args, kwargs, fr):
        if name in self.hooks:
            return self.hooks[name](self, args, kwargs)
        short = name.split('.')[-1]
        root = name.split('.')[0]
        a = args = [unq(x) for x in args]
        numeric = all(is_num(x) for x in a)
        if name == 'operator.index' and len(a) == 1 and is_num(a[0]) and not kwargs:
            # the integer itself as a Python int (for integer inputs the same conversion as int())
            if isinstance(a[0], (sp.floor, sp.ceiling, sp.Integer)) or a[0].is_integer is True:
                return a[0]
            return sp.Function('int')(a[0])
        if root in ('numpy', 'np', 'math') or name in ('abs', 'max', 'min', 'float', 'int',
                                                       'cos', 'sin', 'sqrt', 'fabs', 'asin', 'acos'):
            if short in ('cos', 'sin') and len(a) == 1 and is_num(a[0]):
                x = a[0].subs(ANG, 1)
                return sp.cos(x) if short == 'cos' else sp.sin(x)
            if short == 'sqrt' and numeric and len(a) == 1:
                return sp.sqrt(a[0])
            if short == 'hypot' and numeric and len(a) == 2:
                return sp.sqrt(a[0] ** 2 + a[1] ** 2)
            if short == 'square' and numeric and len(a) == 1 and not kwargs:
                return a[0] ** 2
            if short in ('power', 'float_power') and numeric and len(a) == 2 and not kwargs:
                return a[0] ** a[1]
            if short in ('multiply', 'add', 'subtract', 'true_divide', 'divide') and numeric and len(a) == 2 and (
                    not kwargs or (set(kwargs) == {'dtype'} and 'float' in show(kwargs['dtype'], 60))):
                return {'multiply': a[0] * a[1], 'add': a[0] + a[1], 'subtract': a[0] - a[1]}.get(short, a[0] / a[1])
            if short in ('abs', 'fabs', 'absolute') and numeric and len(a) == 1:
                return sp.Abs(a[0])
            if short == 'floor' and numeric:
                return sp.floor(a[0])
            if short == 'ceil' and numeric:
                return sp.ceiling(a[0])
            if short in ('asin', 'arcsin', 'acos', 'arccos') and numeric and len(a) == 1:
                return sp.asin(a[0]) if short in ('asin', 'arcsin') else sp.acos(a[0])
            if short == 'arctan2' and numeric and len(a) == 2:
                return sp.Function('atan2')(a[0], a[1])
            if short in ('max', 'min') and len(a) == 2 and all(
                    isinstance(x, Tup) and len(x.items) == 2 and all(is_num(i) for i in x.items) for x in a) and not kwargs:
                # tuples compare lexicographically; min/max return the first of equal operands
                (u0, u1), (v0, v1) = a[0].items, a[1].items
                v_lt_u = BoolT('or', (Cmp('<', v0, u0), BoolT('and', (Cmp('==', v0, u0), Cmp('<', v1, u1)))))
                u_lt_v = BoolT('or', (Cmp('<', u0, v0), BoolT('and', (Cmp('==', u0, v0), Cmp('<', u1, v1)))))
                return mk_ite(v_lt_u if short == 'min' else u_lt_v, a[1], a[0])
            if short == 'arange' and len(a) == 1 and isinstance(a[0], sp.Integer) and 0 <= int(a[0]) <= 64 and not kwargs:
                return Tup(tuple(sp.Integer(i) for i in range(int(a[0]))), 'array')
            if short in ('max', 'min') and len(a) == 1 and 'default' in kwargs:
                its = _iter_items(a[0])
                if its is not None and not its:
                    return kwargs['default']          # max((), default=d) is d
                if its is not None and all(is_num(x) for x in its):
                    return its[0] if len(its) == 1 else (sp.Max if short == 'max' else sp.Min)(*its)
            if short in ('max', 'min') and len(a) == 1 and isinstance(a[0], Tup) and len(a[0].items) == 1 \
                    and is_num(a[0].items[0]):
                return a[0].items[0]
            if short in ('max', 'min'):
                items = a
                if len(a) == 1 and isinstance(a[0], Tup):
                    items = list(a[0].items)
                if len(items) >= 2 and all(is_num(x) for x in items):
                    return (sp.Max if short == 'max' else sp.Min)(*items)
            if short in ('float', 'int') and len(a) == 1 and isinstance(a[0], Const) and isinstance(a[0].v, str):
                try:
                    v_ = float(a[0].v) if short == 'float' else int(a[0].v)
                    if v_ == v_ and abs(v_) != float('inf'):
                        return sp.Float(v_) if short == 'float' else sp.Integer(v_)
                except ValueError:
                    pass
            if short == 'int' and len(a) == 1 and isinstance(a[0], App) and a[0].name in ('bool', 'call:bool') \
                    and len(a[0].args) == 1 and is_num(a[0].args[0]) and a[0].args[0].is_number:
                return sp.Integer(int(bool(a[0].args[0] != 0)))
            if short in ('float', 'int') and len(a) == 1 and isinstance(a[0], Const) and isinstance(a[0].v, bool):
                return sp.Integer(int(a[0].v)) if short == 'int' else sp.Float(float(a[0].v))
            if short == 'int' and len(a) == 1 and isinstance(a[0], sp.Float) and float(a[0]) == int(float(a[0])):
                return sp.Integer(int(float(a[0])))
            if short in ('float', 'int') and len(a) == 1 and isinstance(a[0], Ite) and not kwargs:
                # int(c ? x : y) == c ? int(x) : int(y)
                return mk_ite(a[0].cond, self.prim(name, [a[0].a], {}, fr), self.prim(name, [a[0].b], {}, fr))
            if short in ('float', 'int') and len(a) == 1 and is_num(a[0]):
                if short == 'int' and not isinstance(a[0], (sp.floor, sp.ceiling, sp.Integer)) and a[0].is_integer is not True:
                    return sp.Function('int')(a[0])
                return a[0]
            if short == 'atleast_1d' and len(a) == 1 and isinstance(a[0], Tup) and a[0].items:
                return a[0]            # already one-dimensional
            if short == 'pi':
                return sp.pi
            if short in ('deg2rad', 'radians') and numeric and len(a) == 1:
                return a[0] * sp.pi / 180
            if short in ('rad2deg', 'degrees') and numeric and len(a) == 1:
                return a[0] * 180 / sp.pi
            if short in ('less', 'less_equal', 'greater', 'greater_equal') and len(a) == 2 and not kwargs \
                    and all(is_num(x) for x in a):
                return Cmp({'less': '<', 'less_equal': '<=', 'greater': '>', 'greater_equal': '>='}[short], a[0], a[1])
            if short in ('logical_not', 'invert') and len(a) == 1:
                return mk_not(a[0]) if isinstance(a[0], (Cmp, BoolT, Const)) else BoolT('not', (a[0],))
            if short in ('logical_xor', 'logical_and', 'logical_or') and len(a) == 2:
                return BoolT(short[8:], tuple(a))
            if short in ('array', 'asarray', 'asanyarray') and a and _narrowing_dtype(kwargs.get('dtype')):
                # a fixed-width string (or otherwise value-changing) dtype is a conversion, not an identity
                return App(name, (a[0], Tup((Const('dtype'), kwargs['dtype']))))
            if short in ('array', 'asarray', 'asanyarray') and a:
                if isinstance(a[0], Tup) and any(isinstance(i, (App, Obj)) for i in a[0].items):
                    return Tup(a[0].items, 'array')
                if isinstance(a[0], Tup):
                    return Tup(a[0].items, 'array') if not any(
                        isinstance(i, Tup) for i in a[0].items) else Tup(
                        tuple(Tup(i.items, 'array') if isinstance(i, Tup) else i for i in a[0].items), 'array')
                if short != 'array' and not kwargs:
                    return a[0]
                if is_num(a[0]) and set(kwargs) <= {'dtype'} and 'float' in show(kwargs.get('dtype'), 80):
                    return a[0]          # a floating dtype keeps the (real) value
            if short == 'tensordot' and len(a) == 2 and isinstance(a[0], Tup) and isinstance(a[1], Tup) and (
                    kwargs.get('axes') == sp.Integer(1)):
                r = _matmul(a[0], a[1])      # contraction of the last axis of a with the first of b
                if r is not None:
                    return r
            if short in ('matmul', 'dot') and len(a) == 2 and isinstance(a[0], Tup) and isinstance(a[1], Tup):
                r = _matmul(a[0], a[1])
                if r is not None:
                    return r
            if short == 'isscalar' and len(a) == 1:
                if isinstance(a[0], (Obj, DictV, Tup)) and getattr(a[0], 'typed', True):
                    return Const(False)      # np.isscalar of any non-number object is False
                return App('isscalar', (a[0],))
        if root == 're' and short in ('compile', 'search', 'match', 'fullmatch', 'findall', 'split', 'sub') and a:
            ca = [_py_const(x) for x in a]
            if all(x is not _NOCONST for x in ca) and isinstance(ca[0], str) and not kwargs:
                if short == 'compile':
                    o = Obj('regex', {'pattern': Const(ca[0])}, None)
                    if len(ca) > 1:
                        o.fields['flags'] = ca[1]
                    return o
                r = _fold_regex_method(Obj('regex', {'pattern': Const(ca[0])}, None), short, a[1:])
                if r is not NotImplemented:
                    return r
        if name == 'math.pi' or name == 'numpy.pi':
            return sp.pi
        if short in ('deepcopy',) and self.track_copies:
            return App('copy', (a[0],))
        if short in ('deepcopy',) or name in ('copy.copy', 'numpy.copy'):
            if isinstance(a[0], Obj) and a[0].cls in ('RegionMeta', 'RegionVisual') and a[0].path:
                return App('copy', (a[0],))
            if isinstance(a[0], DictV):
                return a[0].copy()        # a dict value is mutable: the copy must not alias it
            if name == 'copy.copy' and isinstance(a[0], Obj) and a[0].ci is not None \
                    and self.m.lookup(a[0].ci, '__copy__') is None:
                # an instance the caller goes on to modify must not alias the original: same class, same attribute values
                return Obj(a[0].cls, dict(a[0].fields), a[0].path, a[0].ci)
            return a[0]
        if name == 'isinstance' and len(a) == 2:
            r = _fold_isinstance(self.m, a[0], a[1])
            if r is not None:
                return Const(r)
            return App('isinstance', tuple(a))
        if name == 'object.__new__' and len(a) == 1 and isinstance(a[0], ClassRef):
            return Obj(a[0].name, {}, None, a[0].ci)        # a bare instance: fields are set by the caller
        if name == 'callable':
            if a and isinstance(a[0], (ExtRef, FuncRef, ClassRef)):
                return Const(True)
            return App('callable', tuple(a))
        if name == 'getattr' and len(a) == 3 and isinstance(a[1], Const) and isinstance(a[0], Tup) \
                and a[1].v not in ('T', 'size', 'shape', 'ndim', 'dtype'):
            return a[2]            # a plain sequence/ndarray has no such attribute: the default applies
        if name == 'getattr' and len(a) == 3 and isinstance(a[1], Const) and is_num(a[0]) and not _has_unit(a[0]) \
                and a[1].v in ('value', 'unit', 'to', 'to_value'):
            return a[2]            # a plain number (not declared a Quantity) has no such attribute
        if name == 'getattr' and len(a) >= 2 and isinstance(a[1], Const):
            return self.attr(a[0], a[1].v, fr)
        if name == 'setattr' and len(a) == 3 and isinstance(a[1], Const) and isinstance(a[1].v, str) and isinstance(a[0], Obj):
            # setattr(obj, 'name', v) == obj.name = v
            self._store_attr(a[0], a[1].v, a[2], fr)
            fr.effects.append(('setattr', a[0], a[1].v, a[2]))
            return Const(None)
        if name == 'hasattr' and len(a) == 2 and isinstance(a[1], Const) and isinstance(a[0], Tup):
            return Const(a[1].v in ('__len__', '__iter__', '__getitem__'))
        if name == 'hasattr' and len(a) == 2 and isinstance(a[1], Const) and isinstance(a[0], Obj):
            o = a[0]
            if a[1].v in o.fields:
                return Const(True)
            if o.ci is not None:
                if self.m.lookup(o.ci, a[1].v) is not None:
                    return Const(True)
                if not any(a[1].v in self.m.params_of(c) for c in self.m.subclasses(o.ci.name)
                           if self.m.lookup(c, '_params')):
                    return Const(False)
                return Const(False) if not self.m.is_abstract(o.ci) else App('hasattr', tuple(a))
        if name in ('itertools.cycle',) and len(a) == 1 and isinstance(a[0], (Tup, Const)):
            src = a[0] if isinstance(a[0], Tup) else Tup(tuple(Const(ch) for ch in a[0].v))
            return App('iter:cycle', (src,))
        if name in ('itertools.chain',) and all(isinstance(x, Tup) or (isinstance(x, App) and x.name.startswith('iter:')) for x in a):
            return App('iter:chain', tuple(a))
        if name == 'zip' and a and not any(k for k in kwargs if k != 'strict'):
            n_ = _finite_len(a)
            if n_ is not None:
                return Tup(tuple(Tup(tuple(_nth(x, i) for x in a)) for i in range(n_)), 'list')
        if name == 'map' and len(a) >= 2 and isinstance(a[0], (FuncRef, ClassRef)):
            items = _iter_items(a[1]) if len(a) == 2 else None
            if items is not None:
                return Tup(tuple(self.apply(a[0], [it], {}, fr) for it in items), 'list')
            return App('map', tuple(a))
        if name in ('all', 'any') and len(a) == 1:
            items = _iter_items(a[0])
            if items is not None:
                ts = [truthy(i) for i in items]
                if all(isinstance(t, Const) for t in ts):
                    vals = [bool(t.v) for t in ts]
                    return Const(all(vals) if name == 'all' else any(vals))
                ts = [t for t in ts if not isinstance(t, Const) or bool(t.v) != (name == 'all')]
                if any(isinstance(t, Const) for t in ts):
                    return Const(name != 'all')
                return BoolT('and' if name == 'all' else 'or', tuple(ts)) if len(ts) > 1 else (ts[0] if ts else Const(name == 'all'))
        if name in ('set', 'frozenset') and len(a) == 1:
            items = _iter_items(a[0])
            if items is not None and all(isinstance(i, Const) for i in items):
                uniq = []
                for i in items:
                    if not any(u_.v == i.v for u_ in uniq):
                        uniq.append(i)
                return Tup(tuple(uniq), 'set')
        if name == 'enumerate' and len(a) == 1:
            items = _iter_items(a[0])
            if items is not None:
                return Tup(tuple(Tup((sp.Integer(i), it)) for i, it in enumerate(items)), 'list')
        if name == 'range' and a and all(isinstance(x, sp.Integer) for x in a):
            return Tup(tuple(sp.Integer(i) for i in range(*[int(x) for x in a])), 'list')
        if name in ('list', 'tuple') and len(a) == 1:
            items = _iter_items(a[0])
            if items is not None:
                return Tup(tuple(items), name)
        if name in ('list', 'dict') and not a and not kwargs:
            return Tup((), 'list') if name == 'list' else DictV([{}])
        if name == 'dict' and len(a) == 1 and isinstance(a[0], DictV):
            d = a[0].copy()
            if kwargs:
                d.layers.append(dict(kwargs))
            return d
        if name == 'dict' and not a and kwargs and '**' not in kwargs:
            return DictV([dict(kwargs)])
        if name in ('itertools.chain', 'chain') and not kwargs:
            parts = [_iter_items(x) for x in a]
            if all(p_ is not None for p_ in parts):
                return Tup(tuple(i for p_ in parts for i in p_), 'list')      # finite concatenation
        if name == 'dict.fromkeys' and a and not kwargs:
            items = _iter_items(a[0])
            if items is not None and all(isinstance(i, Const) for i in items):
                val = a[1] if len(a) > 1 else Const(None)
                return DictV([{i.v: val for i in items}])
        if name == 'dict' and len(a) == 1 and not kwargs and isinstance(a[0], Tup) and all(
                isinstance(p_, Tup) and len(p_.items) == 2 and isinstance(p_.items[0], Const) for p_ in a[0].items):
            # dict(pairs) with constant keys
            return DictV([{p_.items[0].v: p_.items[1] for p_ in a[0].items}])
        if name == 'len' and len(a) == 1 and isinstance(a[0], Const) and isinstance(a[0].v, (str, bytes, tuple, list)):
            return sp.Integer(len(a[0].v))
        if name == 'len' and len(a) == 1:
            items = _iter_items(a[0])
            if items is not None:
                return sp.Integer(len(items))
            if isinstance(a[0], DictV) and not a[0].has_symbolic():
                return sp.Integer(len(a[0].keys()))
        if name == 'slice':
            return App('slice', tuple(a))
        if root == 'astropy' or name.startswith('u.'):
            if '.units.' in name or name.startswith('u.'):
                if short in UNIT and not a:
                    return UNIT[short]
                if short == 'Quantity' and a and is_num(a[0]):
                    q = a[0]
                    u = a[1] if len(a) > 1 else kwargs.get('unit')
                    if u is None:
                        return q
                    if isinstance(u, Const) and u.v in UNIT:
                        u = UNIT[u.v]
                    if is_num(q) and is_num(u):
                        # Quantity(quantity, unit) converts (the same physical quantity, re-expressed); Quantity(number, unit) attaches
                        return _Q(q, u) if _has_unit(q) else q * u
            if short == 'Angle' and a and is_num(a[0]):
                q = a[0]
                u = a[1] if len(a) > 1 else kwargs.get('unit')
                if isinstance(u, Const) and u.v in UNIT:
                    # Angle(quantity, unit) converts; Angle(number, unit) attaches
                    return q if _has_unit(q) else q * UNIT[u.v]
                if u is None or is_num(u):
                    return q if u is None or _has_unit(q) else q * u
        if name.startswith('operator.') and short in ('and_', 'or_', 'xor'):
            if len(a) == 2 and all(isinstance(x, sp.Integer) or (isinstance(x, Const) and isinstance(x.v, bool)) for x in a):
                import operator as _op
                pv = [int(x) if isinstance(x, sp.Integer) else x.v for x in a]
                r_ = getattr(_op, short)(*pv)
                return Const(r_) if isinstance(r_, bool) else sp.Integer(r_)
            if len(a) == 2 and isinstance(a[0], Obj) and a[0].ci is not None:
                # operator.or_(x, y) is x | y: the class's own __or__ / __and__ / __xor__
                return self.binop({'and_': ast.BitAnd(), 'or_': ast.BitOr(), 'xor': ast.BitXor()}[short], a[0], a[1])
            if len(a) == 2:
                return BoolT({'and_': 'and', 'or_': 'or', 'xor': 'xor'}[short], tuple(a))
        return App(name, tuple(a) + tuple(Tup((Const(k), v)) for k, v in sorted(
            kwargs.items(), key=lambda kv: kv[0])))


_NOCONST = object()


def _py_const(t):
    """the Python constant a term denotes (str/int/bool/None/tuple of them), else _NOCONST."""
    if isinstance(t, Const):
        return t.v
    if isinstance(t, sp.Integer):
        return int(t)
    if isinstance(t, sp.Float):
        return float(t)
    if isinstance(t, ExtRef) and t.name.startswith('re.') and t.name[3:].isupper():
        import re as _re
        v = getattr(_re, t.name[3:], None)
        if v is not None:
            return int(v)          # regex flags
    if isinstance(t, Tup) and t.kind != 'array':
        xs = [_py_const(i) for i in t.items]
        if all(x is not _NOCONST for x in xs):
            return tuple(xs) if t.kind != 'list' else list(xs)
    return _NOCONST


def _term_of_py(r):
    if isinstance(r, bool) or r is None or isinstance(r, str):
        return Const(r)
    if isinstance(r, int):
        return sp.Integer(r)
    if isinstance(r, (list, tuple)):
        return Tup(tuple(_term_of_py(x) for x in r), 'list' if isinstance(r, list) else 'tuple')
    return None


def _fold_regex_method(base, meth, args):
    """constant folding of the stdlib regex engine: compiled pattern / match objects applied to constant strings."""
    import re as _re
    cargs = [_py_const(a) for a in args]
    if any(x is _NOCONST for x in cargs):
        return NotImplemented
    try:
        if base.cls == 'regex':
            rx = _re.compile(base.fields['pattern'].v, base.fields.get('flags', 0) or 0)
            if meth in ('search', 'match', 'fullmatch'):
                mt = getattr(rx, meth)(*cargs)
                if mt is None:
                    return Const(None)
                o = Obj('rematch', {}, None)
                o.pymatch = mt
                o.truth = True          # a match object is truthy
                return o
            if meth in ('findall', 'split', 'sub'):
                return _term_of_py(getattr(rx, meth)(*cargs))
            if meth == 'finditer':
                out = []
                for mt in rx.finditer(*cargs):
                    o = Obj('rematch', {}, None)
                    o.pymatch = mt
                    o.truth = True
                    out.append(o)
                return Tup(tuple(out), 'list')
        if base.cls == 'rematch' and meth in ('groups', 'group', 'span', 'start', 'end', 'groupdict'):
            r = getattr(base.pymatch, meth)(*cargs)
            if isinstance(r, dict):
                return DictV([{k: _term_of_py(v) for k, v in r.items()}])
            return _term_of_py(r)
    except Exception:
        return Unknown(f're.{meth} failed on constants')
    return NotImplemented


def _narrowing_dtype(dt):
    """dtype= values that can change the stored values: fixed-width strings, or a dtype computed at run time."""
    import re as _re
    if dt is None or (isinstance(dt, Const) and dt.v is None):
        return False
    if isinstance(dt, Const) and isinstance(dt.v, str):
        return bool(_re.match(r'^[<>|=]?[USa]\d*$', dt.v))
    if isinstance(dt, (ExtRef, ClassRef, FuncRef)):
        return False
    if isinstance(dt, App) and dt.name in ('fstring', 'fmt', 'binop:Add', 'str.format'):
        return True
    return False


def _cls_names(t):
    if isinstance(t, ClassRef):
        return [('repo', t.ci)]
    if isinstance(t, ExtRef):
        return [('ext', t.name.split('.')[-1])]
    if isinstance(t, Tup):
        out = []
        for i in t.items:
            r = _cls_names(i)
            if r is None:
                return None
            out += r
        return out
    return None


PLAIN_QUANTITY = set()     # symbols known to be plain Quantity objects (not Angle)


def _fold_isinstance(model, v, t):
    """Decide isinstance(v, t) when the abstract value's class is known."""
    names = _cls_names(t)
    if names is None:
        return None
    if isinstance(v, GenV):
        return False        # a generator object is an instance of no repository class and no container type
    if isinstance(v, Ite):
        ra, rb = _fold_isinstance(model, v.a, t), _fold_isinstance(model, v.b, t)
        return ra if ra is not None and ra == rb else None      # both alternatives agree
    if isinstance(v, App) and v.name.startswith('astropy.') and v.name.split('.')[-1][:1].isupper():
        made = v.name.split('.')[-1]
        sub = {'Angle': {'Angle', 'Quantity'}, 'Quantity': {'Quantity'}, 'SkyCoord': {'SkyCoord'}}.get(made)
        if sub is not None and all(k == 'ext' for k, c in names):
            return any(c in sub for k, c in names)
    if isinstance(v, App) and v.name == 'getitem' and len(v.args) == 2 and isinstance(v.args[0], App) \
            and v.args[0].name.endswith('.SkyCoord') and is_num(v.args[1]):
        # an element of a SkyCoord array is a SkyCoord
        return _fold_isinstance(model, v.args[0], t)
    if all(k == 'ext' for k, c in names):
        # values whose Python type the term itself fixes
        ty = None
        if isinstance(v, App) and v.name in ('fstring', 'fmt', 'str.format', 'str') or (
                isinstance(v, Const) and isinstance(v.v, str)) or (
                isinstance(v, Obj) and v.cls == 'str' and v.ci is None and getattr(v, 'typed', True) is not False):
            ty = {'str'}
        elif isinstance(v, Tup) and v.kind in ('list', 'tuple'):
            ty = {v.kind}
        elif isinstance(v, Const) and isinstance(v.v, bool):
            ty = {'bool', 'int'}
        if ty is not None and any(c in ty for k, c in names):
            return True                 # a Python str / list / tuple / bool is an instance of its own type, whatever else is listed
        if ty is not None and all(c in ('str', 'list', 'tuple', 'dict', 'bool', 'int', 'float', 'set', 'bytes',
                                        'bool_', 'ndarray', 'generic', 'integer', 'floating', 'number', 'Quantity')
                                  for k, c in names):
            return False                # ... and of none of the other builtin / numpy types
    if isinstance(v, sp.Symbol) and v in PLAIN_QUANTITY and all(k == 'ext' for k, c in names):
        return any(c == 'Quantity' for k, c in names)
    if isinstance(v, Obj) and getattr(v, 'typed', True) is False:
        return None
    if isinstance(v, Obj) and (v.ci is not None or v.cls in ('SkyCoord', 'RegionMeta', 'RegionVisual')):
        res = False
        for kind, c in names:
            if kind == 'repo':
                if v.ci is not None and model.is_subclass(v.ci, c.name):
                    res = True
                elif v.ci is None and v.cls == c.name:
                    res = True
            elif v.cls == c:
                res = True
            elif v.ci is None and kind == 'ext' and c in ('dict',) and v.cls in ('RegionMeta', 'RegionVisual'):
                res = True
        return res
    if isinstance(v, (sp.Float, sp.Integer, sp.Rational)) and all(k == 'ext' for k, c in names) \
            and all(c in ('float', 'int', 'bool', 'str', 'list', 'tuple', 'dict') for k, c in names):
        # a literal number: its Python type is known
        ty = 'int' if isinstance(v, sp.Integer) else ('float' if isinstance(v, sp.Float) else None)
        if ty is not None:
            return any(c == ty for k, c in names)
    if isinstance(v, sp.Basic):
        q = _has_unit(v)
        res = False
        if {'Quantity', 'Number'} <= {c for k_, c in names if k_ == 'ext'}:
            return True
        for kind, c in names:
            if kind == 'repo':
                continue
            if c == 'Number':
                if not q:
                    res = True
            elif c == 'Quantity':
                if q:
                    res = True
            elif c in ('Angle',):
                if q:
                    return None       # a Quantity may or may not be an Angle
            elif c in ('SkyCoord', 'str', 'dict', 'list', 'tuple'):
                continue
            else:
                return None
        return res
    if isinstance(v, DictV):
        return any((k == 'ext' and c == 'dict') for k, c in names) or None
    if isinstance(v, Const) and isinstance(v.v, str):
        return any(k == 'ext' and c == 'str' for k, c in names)
    if isinstance(v, Const) and v.v is None:
        return False
    if isinstance(v, Tup):
        return any(k == 'ext' and c in ('tuple', 'list') for k, c in names)
    return None


def _tuple_key(k):
    """python tuple for a Tup of constants / integers (a dictionary key such as (0, 1)), else None"""
    if not isinstance(k, Tup) or k.kind not in ('tuple',):
        return None
    out = []
    for i in k.items:
        if isinstance(i, Const) and isinstance(i.v, (str, int, bool, type(None))):
            out.append(i.v)
        elif isinstance(i, sp.Integer):
            out.append(int(i))
        else:
            return None
    return tuple(out)


# standard-library functions whose result is a string / path, never None
NEVER_NONE = frozenset(('os.path.expanduser', 'os.path.abspath', 'os.path.join', 'os.path.normpath', 'os.path.realpath',
                        'os.path.basename', 'os.path.dirname', 'os.fspath', 'os.path.expandvars', 'str', 'repr'))


def unq(v):
    """A converted quantity x.to(U) used as a quantity is x itself."""
    while isinstance(v, App) and v.name == 'to':
        v = v.args[0]
    return v


def _Q(q, u):
    # x.to(U) keeps the physical quantity; .value divides by U
    return App('to', (q, u))


def _has_unit(q):
    q = unq(q)
    return is_num(q) and (q.has(PIX) or q.has(ANG) or bool(q.free_symbols & _QSYMS))


_QSYMS = set()


def mark_quantity(symbol):
    _QSYMS.add(symbol)
    return symbol


def reset_marks():
    """forget which symbols were declared quantities (call before an evaluation that re-uses names)."""
    _QSYMS.clear()
    PLAIN_QUANTITY.clear()


def _as_load(t):
    t2 = ast.parse(ast.unparse(t), mode='eval').body
    return t2


def _copy_env(env):
    out = {}
    for k, v in env.items():
        out[k] = v.copy() if isinstance(v, DictV) else v
    return out


def _merge_objs(env):
    return


def _reachable_objs(env, fr):
    out, seen = [], set()

    def add(v, d=0):
        if isinstance(v, Obj) and id(v) not in seen and v.path is None:
            seen.add(id(v))
            out.append(v)
            if d < 2:
                for x in list(v.fields.values()):
                    add(x, d + 1)
        elif isinstance(v, Tup) and d < 2:
            for x in v.items:
                add(x, d + 1)
    for v in env.values():
        add(v)
    if fr.self_obj is not None:
        add(fr.self_obj)
    return out


def _append_ite(base, item):
    if isinstance(base, Tup) and base.kind == 'list':
        return Tup(base.items + (item,), 'list')
    if isinstance(base, Ite):
        a, b = _append_ite(base.a, assume(item, base.cond, True)), _append_ite(base.b, assume(item, base.cond, False))
        if a is None or b is None:
            return None
        return mk_ite(base.cond, a, b)
    return None


def _finite_len(args):
    ns = []
    for x in args:
        if isinstance(x, Tup):
            ns.append(len(x.items))
        elif isinstance(x, App) and x.name == 'iter:cycle':
            continue
        elif isinstance(x, App) and x.name == 'iter:chain':
            if any(isinstance(y, App) and y.name == 'iter:cycle' for y in x.args):
                continue
            ns.append(sum(len(y.items) for y in x.args))
        else:
            return None
    return min(ns) if ns else None


def _nth(x, i):
    if isinstance(x, Tup):
        return x.items[i]
    if isinstance(x, App) and x.name == 'iter:cycle':
        src = x.args[0].items
        return src[i % len(src)]
    if isinstance(x, App) and x.name == 'iter:chain':
        for y in x.args:
            if isinstance(y, Tup):
                if i < len(y.items):
                    return y.items[i]
                i -= len(y.items)
            else:
                return _nth(y, i)
    return Unknown('nth of unknown iterable')


def _iter_items(v):
    if isinstance(v, Tup):
        return list(v.items)
    if isinstance(v, Const) and isinstance(v.v, str):
        return [Const(ch) for ch in v.v]
    if isinstance(v, Obj) and isinstance(v.fields.get('__items__'), Tup):
        return list(v.fields['__items__'].items)
    if isinstance(v, Obj) and v.cls == 'PixCoord' and isinstance(v.fields.get('x'), Tup) and isinstance(v.fields.get('y'), Tup) \
            and len(v.fields['x'].items) == len(v.fields['y'].items):
        # iterating a non-scalar PixCoord yields one scalar PixCoord per element
        return [Obj('PixCoord', {'x': a, 'y': b}, None, v.ci) for a, b in zip(v.fields['x'].items, v.fields['y'].items)]
    if isinstance(v, App) and v.name == 'dict.items' and isinstance(v.args[0], DictV) and not v.args[0].has_symbolic():
        d = v.args[0]
        return [Tup((Const(k), d.get(k))) for k in d.keys()]
    if isinstance(v, App) and v.name in ('dict.keys', 'dict.values') and isinstance(v.args[0], DictV) \
            and not v.args[0].has_symbolic():
        d = v.args[0]
        return [Const(k) if v.name == 'dict.keys' else d.get(k) for k in d.keys()]
    if isinstance(v, DictV) and not v.has_symbolic():
        return [Const(k) for k in v.keys()]
    return None


def _has_loop_jump(body):
    for s in body:
        for n in ast.walk(s):
            if isinstance(n, (ast.Break, ast.Continue)):
                return True
    return False


def _has_break(body):
    for s in body:
        for n in ast.walk(s):
            if isinstance(n, ast.Break):
                return True
    return False


def _havoc(stmts, env, why):
    for s in stmts:
        for n in ast.walk(s):
            if isinstance(n, ast.Name) and isinstance(n.ctx, ast.Store):
                env[n.id] = Unknown(f'{n.id}: {why}')
            elif isinstance(n, ast.Call) and isinstance(n.func, ast.Attribute) and \
                    isinstance(n.func.value, ast.Name) and n.func.attr in (
                        'append', 'extend', 'update', 'pop', 'insert', 'add'):
                env[n.func.value.id] = Unknown(f'{n.func.value.id}: mutated in {why}')
            elif isinstance(n, (ast.Subscript, ast.Attribute)) and isinstance(n.ctx, ast.Store):
                r = n
                while isinstance(r, (ast.Subscript, ast.Attribute)):
                    r = r.value
                if isinstance(r, ast.Name) and r.id != 'self':
                    env[r.id] = Unknown(f'{r.id}: stored in {why}')


def _index(base, k):
    if is_unknown(base):
        return base
    if isinstance(k, sp.Integer):
        k = int(k)
    if isinstance(base, Tup) and isinstance(k, int):
        if -len(base.items) <= k < len(base.items):
            return base.items[k]
        return Unknown('index out of range')
    if isinstance(base, Const) and isinstance(base.v, str) and isinstance(k, int):
        if -len(base.v) <= k < len(base.v):
            return Const(base.v[k])
        return Unknown('string index out of range')
    if isinstance(base, Obj) and isinstance(base.fields.get('__data__'), DictV) and isinstance(k, Const):
        return _index(base.fields['__data__'], k)       # a record object with keyed columns (table row)
    if isinstance(base, DictV) and isinstance(k, Const):
        v = base.get(k.v)
        if v is not None and not (isinstance(v, Const) and v.v == '__absent__'):
            return v
    if isinstance(base, DictV) and isinstance(k, App) and not contains_unknown(k) and TermKey(show(k, 10 ** 6)) in base.keys():
        return base.get(TermKey(show(k, 10 ** 6)))
    if isinstance(base, DictV) and isinstance(k, Tup) and _tuple_key(k) is not None and _tuple_key(k) in base.keys():
        return base.get(_tuple_key(k))
    if isinstance(base, Ite):
        return mk_ite(base.cond, _index(base.a, k), _index(base.b, k))
    if isinstance(k, int):
        k = sp.Integer(k)
    if is_num(base) and is_num(k):
        return sp.Function('getitem')(base, k)
    return App('getitem', (base, k))


def _slice(base, lo, hi, stp):
    def ival(x):
        if x is None:
            return None
        if isinstance(x, sp.Integer):
            return int(x)
        if isinstance(x, Const) and x.v is None:
            return None
        return 'sym'
    l, h, s = ival(lo), ival(hi), ival(stp)
    if isinstance(base, Tup) and 'sym' not in (l, h, s):
        return Tup(tuple(base.items[slice(l, h, s)]), base.kind)
    if isinstance(base, Const) and isinstance(base.v, str) and 'sym' not in (l, h, s):
        return Const(base.v[slice(l, h, s)])
    return App('slice_of', (base, lo if lo is not None else Const(None),
                            hi if hi is not None else Const(None),
                            stp if stp is not None else Const(None)))


def _is_vec(t):
    return isinstance(t, Tup) and all(is_num(i) for i in t.items)


def _broadcast(f, a, b):
    if isinstance(a, Tup) and isinstance(b, Tup):
        if len(a.items) == len(b.items):
            return Tup(tuple(_broadcast(f, x, y) if isinstance(x, Tup) or isinstance(y, Tup)
                             else f(x, y) for x, y in zip(a.items, b.items)), 'array')
        # n x 2 with 2-vector
        if all(isinstance(i, Tup) for i in a.items) and _is_vec(b):
            return Tup(tuple(_broadcast(f, x, b) for x in a.items), 'array')
        if all(isinstance(i, Tup) for i in b.items) and _is_vec(a):
            return Tup(tuple(_broadcast(f, a, y) for y in b.items), 'array')
        return Unknown('broadcast of unequal shapes')
    if isinstance(a, Tup):
        return Tup(tuple(_broadcast(f, x, b) if isinstance(x, Tup) else f(x, b) for x in a.items), 'array')
    return Tup(tuple(_broadcast(f, a, y) if isinstance(y, Tup) else f(a, y) for y in b.items), 'array')


def _transpose(t):
    if isinstance(t, Tup) and t.items and all(isinstance(i, Tup) for i in t.items):
        n = len(t.items[0].items)
        if all(len(i.items) == n for i in t.items):
            return Tup(tuple(Tup(tuple(r.items[c] for r in t.items), 'array') for c in range(n)), 'array')
    return App('transpose', (t,))


def _matmul(a, b):
    def is_mat(t):
        return t.items and all(isinstance(i, Tup) and _is_vec(i) for i in t.items)
    try:
        if _is_vec(a) and _is_vec(b) and len(a.items) == len(b.items) and not is_mat(a) and not is_mat(b) \
                and all(is_num(i) for i in a.items + b.items):
            return sum((x * y for x, y in zip(a.items, b.items)), sp.Integer(0))
        if is_mat(a) and _is_vec(b):
            if all(len(r.items) == len(b.items) for r in a.items):
                return Tup(tuple(sum((x * y for x, y in zip(r.items, b.items)), sp.Integer(0))
                                 for r in a.items), 'array')
        if is_mat(a) and is_mat(b):
            bt = _transpose(b)
            return Tup(tuple(Tup(tuple(sum((x * y for x, y in zip(r.items, c.items)), sp.Integer(0))
                                       for c in bt.items), 'array') for r in a.items), 'array')
        if is_mat(a) and b.items and all(isinstance(i, sp.Basic) for i in b.items):
            return None
    except Exception:
        return None
    return None


# ---------------------------------------------------------- normal form
def _trig_reduce(e):
    """Reduce a polynomial modulo cos^2+sin^2-1 for every angle argument."""
    e = sp.expand(e)
    args = {f.args[0] for f in e.atoms(sp.sin, sp.cos)}
    for i, a in enumerate(sorted(args, key=sp.srepr)):
        c, s = sp.Symbol(f'_c{i}'), sp.Symbol(f'_s{i}')
        e2 = e.subs({sp.cos(a): c, sp.sin(a): s})
        num_, den = sp.fraction(sp.together(e2))
        num_ = sp.expand(num_)
        if num_.is_polynomial(s):
            num_ = sp.rem(sp.Poly(num_, s), sp.Poly(s ** 2 + c ** 2 - 1, s)).as_expr()
        e = (sp.expand(num_) / den).subs({c: sp.cos(a), s: sp.sin(a)})
    return e


def _rewrite_minmax(e):
    """max(|u-v|,|u+v|) = |u|+|v|  (theorem over the reals)."""
    def rw(x):
        if isinstance(x, sp.Max) and len(x.args) == 2 and all(isinstance(a, sp.Abs) for a in x.args):
            p, q = x.args[0].args[0], x.args[1].args[0]
            for q2 in (q, -q):
                u = sp.expand((p + q2) / 2)
                v = sp.expand((p - q2) / 2)
                # p = u+v, q2 = u-v
                if sp.expand(u + v - p) == 0 and sp.expand(u - v - q2) == 0:
                    return sp.Abs(u) + sp.Abs(v)
        return x
    return e.replace(lambda x: isinstance(x, sp.Max), rw)


def nf(e):
    """Normal form of a numeric term."""
    if not is_num(e):
        return e
    e = _rewrite_minmax(e)
    try:
        e = _trig_reduce(e)
        e = sp.together(sp.expand(e))
        return sp.simplify(e) if len(str(e)) < 400 else e
    except Exception:
        return sp.expand(e)


def num_equal(a, b):
    """True/False for numeric terms (over the reals, primitives trusted)."""
    if not (is_num(a) and is_num(b)):
        return None
    d = (a - b).subs(ANG, 1)
    d = _rewrite_minmax(sp.expand(d)) if d.has(sp.Max) else d
    try:
        d = _trig_reduce(d)
        n_, _ = sp.fraction(sp.together(d))
        n_ = sp.expand(n_)
        if n_ == 0:
            return True
        n_ = sp.simplify(_trig_reduce(n_))
        return n_ == 0
    except Exception:
        return sp.simplify(d) == 0


def term_equal(a, b):
    """'eq' | 'ne' | 'unknown' for arbitrary terms."""
    ua, ub = contains_unknown(a), contains_unknown(b)
    if ua is not None or ub is not None:
        return 'unknown'
    if is_num(a) and is_num(b):
        return 'eq' if num_equal(a, b) else 'ne'
    if type(a) is not type(b):
        return 'ne'
    if isinstance(a, Tup):
        if len(a.items) != len(b.items):
            return 'ne'
        rs = [term_equal(x, y) for x, y in zip(a.items, b.items)]
        return 'ne' if 'ne' in rs else ('unknown' if 'unknown' in rs else 'eq')
    if isinstance(a, App):
        if a.name != b.name or len(a.args) != len(b.args):
            return 'ne'
        rs = [term_equal(x, y) for x, y in zip(a.args, b.args)]
        return 'ne' if 'ne' in rs else ('unknown' if 'unknown' in rs else 'eq')
    if isinstance(a, Obj):
        if a.cls != b.cls or a.path != b.path or set(a.fields) != set(b.fields):
            return 'ne'
        rs = [term_equal(a.fields[k], b.fields[k]) for k in a.fields]
        return 'ne' if 'ne' in rs else ('unknown' if 'unknown' in rs else 'eq')
    return 'eq' if same(a, b) else 'ne'


def subst_bool(t, target, value):
    """Replace boolean sub-term `target` by Const(value) and simplify."""
    if same(t, target):
        return Const(value)
    if isinstance(t, BoolT):
        args = tuple(subst_bool(a, target, value) for a in t.args)
        return simp_bool(BoolT(t.op, args))
    if isinstance(t, Ite):
        c = subst_bool(t.cond, target, value)
        return mk_ite(c, subst_bool(t.a, target, value), subst_bool(t.b, target, value))
    return t


def simp_bool(t):
    if not isinstance(t, BoolT):
        return t
    if t.op == 'not':
        return mk_not(t.args[0])
    if t.op == 'truthy':
        return truthy(t.args[0])
    if t.op in ('and', 'or'):
        neutral = t.op == 'and'
        out = []
        for a in t.args:
            if isinstance(a, Const) and isinstance(a.v, bool):
                if a.v == neutral:
                    continue
                return Const(not neutral)
            out.append(a)
        if not out:
            return Const(neutral)
        return out[0] if len(out) == 1 else BoolT(t.op, tuple(out))
    if t.op == 'xor' and len(t.args) == 2:
        a, b = t.args
        if isinstance(a, Const) and isinstance(b, Const):
            return Const(bool(a.v) != bool(b.v))
        if isinstance(a, Const):
            return mk_not(b) if a.v else b
        if isinstance(b, Const):
            return mk_not(a) if b.v else a
    return t


# -------------------------------------------------------------- printing
class _Budget(Exception):
    pass


def show(t, maxlen=400):
    global _SHOW_LEFT
    _SHOW_LEFT = [maxlen * 6 + 200]
    try:
        s = _show(t)
    except _Budget:
        s = _show_trunc(t)
    return s if len(s) <= maxlen else s[:maxlen] + '…'


_SHOW_LEFT = [10 ** 9]


def _show_trunc(t):
    return f'<{type(t).__name__} too large to print>'


def _show(t):
    _SHOW_LEFT[0] -= 1
    if _SHOW_LEFT[0] < 0:
        raise _Budget()
    return _show1(t)


def _show1(t):
    if isinstance(t, sp.Basic):
        return str(t)
    if isinstance(t, Const):
        return repr(t.v)
    if isinstance(t, Cmp):
        return f'({_show(t.lhs)} {t.op} {_show(t.rhs)})'
    if isinstance(t, BoolT):
        if t.op == 'not':
            return f'not {_show(t.args[0])}'
        if t.op == 'truthy':
            return f'bool({_show(t.args[0])})'
        return '(' + f' {t.op} '.join(_show(a) for a in t.args) + ')'
    if isinstance(t, Ite):
        return f'ite({_show(t.cond)}, {_show(t.a)}, {_show(t.b)})'
    if isinstance(t, Tup):
        return '[' + ', '.join(_show(i) for i in t.items) + ']'
    if isinstance(t, App):
        return f'{t.name}(' + ', '.join(_show(a) for a in t.args) + ')'
    if isinstance(t, Obj):
        if t.path and not t.fields:
            return t.path
        return f'{t.cls}(' + ', '.join(f'{k}={_show(v)}' for k, v in t.fields.items()) + ')'
    if isinstance(t, DictV):
        return 'dict' + repr([({k: _show(v) for k, v in l.items()} if isinstance(l, dict)
                               else ('-' + str(l.key) if isinstance(l, Popped) else '**' + _show(l)))
                              for l in t.layers])
    if isinstance(t, (ClassRef, FuncRef)):
        return getattr(t, 'name', '') or getattr(t, 'qual', '')
    if isinstance(t, ExtRef):
        return t.name
    return repr(t)


# ---------------------------------------------------- predicate equality
def _clear_pos_den(e):
    """numerator of e after clearing a denominator of known positive sign;
    None if the denominator's sign is unknown."""
    n_, d_ = sp.fraction(sp.together(e))
    if d_.is_positive or d_ == 1:
        return sp.expand(n_)
    if (d_ ** 2).is_positive and sp.sqrt(d_ ** 2) == d_:
        return sp.expand(n_)
    return None


def pred_form(c: Cmp):
    """(P, op): the predicate is P op 0, with sqrt/abs sides squared when sound."""
    lhs, rhs = c.lhs, c.rhs
    if not (is_num(lhs) and is_num(rhs)):
        return None
    op = c.op
    if op not in ('<', '<='):
        return None

    def nonneg_root(x):
        if isinstance(x, sp.Abs):
            return x.args[0]
        if isinstance(x, sp.Pow) and x.exp == sp.Rational(1, 2):
            return None
        return None
    # Abs(X) < k  or sqrt(X) < k with k >= 0 known: square both sides
    if isinstance(lhs, sp.Abs) and (rhs.is_positive or rhs.is_nonnegative):
        return (sp.expand(lhs.args[0] ** 2 - rhs ** 2), op)
    if isinstance(lhs, sp.Pow) and lhs.exp == sp.Rational(1, 2) and (
            rhs.is_positive or rhs.is_nonnegative):
        return (sp.expand(lhs.base - rhs ** 2), op)
    return (lhs - rhs, op)


def pred_equiv(c1: Cmp, c2: Cmp):
    """'eq' | 'strictness' | 'ne' | 'unknown'"""
    if contains_unknown(c1) is not None or contains_unknown(c2) is not None:
        return 'unknown'
    f1, f2 = pred_form(c1), pred_form(c2)
    if f1 is None or f2 is None:
        return 'eq' if same(c1, c2) else 'unknown'
    (p1, o1), (p2, o2) = f1, f2
    ok = False
    if num_equal(p1, p2):
        ok = True
    else:
        n1, n2 = _clear_pos_den(p1), _clear_pos_den(p2)
        if n1 is not None and n2 is not None:
            n1, n2 = sp.expand(_trig_reduce(n1)), sp.expand(_trig_reduce(n2))
            if n2 != 0:
                r = sp.cancel(sp.together(n1 / n2))
                if r.is_positive:
                    ok = True
    if not ok:
        return 'ne'
    return 'eq' if o1 == o2 else 'strictness'


# ---------------------------------------------------------------- traversal
def walk_terms(t, _seen=None):
    """Yield every distinct sub-term of t (DAG-aware)."""
    _seen = set() if _seen is None else _seen
    stack = [t]
    while stack:
        x = stack.pop()
        if id(x) in _seen:
            continue
        _seen.add(id(x))
        yield x
        if isinstance(x, Tup):
            stack.extend(x.items)
        elif isinstance(x, App):
            stack.extend(x.args)
        elif isinstance(x, Ite):
            stack.extend((x.cond, x.a, x.b))
        elif isinstance(x, Cmp):
            stack.extend((x.lhs, x.rhs))
        elif isinstance(x, BoolT):
            stack.extend(x.args)
        elif isinstance(x, Obj):
            stack.extend(x.fields.values())
        elif isinstance(x, DictV):
            for l in x.layers:
                if isinstance(l, dict):
                    stack.extend(l.values())
                elif not isinstance(l, Popped):
                    stack.append(l)


def contains_term(t, sub):
    k = _key(sub)
    return any(_key(x) == k for x in walk_terms(t) if type(x) is type(sub))


def mentions_name(t, name):
    """does a symbol / access path called `name` (or extending it) occur in t?"""
    for x in walk_terms(t):
        if isinstance(x, sp.Basic):
            if any(s.name == name or s.name.startswith(name) for s in x.free_symbols):
                return True
        elif isinstance(x, Obj) and x.path and (x.path == name or x.path.startswith(name)):
            return True
    return False
