#!/bin/bash
# quick list of self-test variants that no longer apply to /repo's working tree (git apply --check / anchor text);
# tools/stale_variants.sh gives the same list from a full self-test run
cd /verif
for d in seeded/*/ refactors/*/ repairs/*/; do
  [ -f $d/patch.diff ] && { git -C /repo apply --check $(pwd)/$d/patch.diff 2>/dev/null || echo "STALE $d"; }
done
python3 - <<'PY'
import json
for f in ('/verif/sa/mutants.json', '/verif/sa/mutants_own.json'):
    for m in json.load(open(f))['mutants']:
        if m.get('status') in ('equivalent', 'pending-rule'):
            continue
        if m['old'] not in open('/repo/' + m['file']).read():
            print('STALE mutant', m['id'], m['file'])
PY
