#!/usr/bin/env python3
import json, sys
pid, ws, variant = sys.argv[1], sys.argv[2], (sys.argv[3] if len(sys.argv) > 3 else '')
for l in open('/verif/properties.jsonl'):
    p = json.loads(l)
    if p['id'] == pid:
        break
print(f"""You are testing how well a Python library's behaviour is pinned down. Work ONLY inside the scratch copy of the
astropy/regions repository at {ws} (it is a full git clone with the compiled extension modules in place). Do not read or
write anything under /verif or /repo, and do not use the network.

Property of the library that should always hold:

  Title: {p['title']}
  Statement: {p['statement']}
  Quantified over: {p['quantifier']['text']}

Your task: make ONE small, realistic change to the library source under {ws}/regions (not to tests) that BREAKS this
property while the existing test suite still passes completely, i.e. a plausible bug a maintainer could introduce in a
refactor. Prefer a change that needs something specific to manifest — an unusual input, a particular parameter
combination, a multi-step sequence of calls, or two cooperating sites that each look fine alone — rather than one that
ordinary use would expose at once. {variant}

Rules:
 * Only edit .py files under {ws}/regions (the .pyx kernels cannot be rebuilt here). Do not edit or add tests.
 * The existing suite must still pass with your change. Run it with:
     cd {ws} && PYTHONPATH={ws} /venv/bin/python -m pytest -q -p no:cacheprovider --timeout=900 --continue-on-collection-errors --color=no -n 8 2>&1 | tail -5
   The healthy result on the unchanged tree is: 1010 passed, 6 failed, 32 errors (those failures/errors are
   environment-related and also occur without any change; the count of passed tests must stay 1010 and no new failure appear).
 * Write a demonstration script {ws}/_seed/demo.py that exits 0 when the property holds and exits 1 (printing what went
   wrong) when it is violated. It must FAIL with your change applied and PASS on the unchanged tree (check both, using
   `git stash` / `git stash pop` or `git diff > patch; git checkout .; ...; git apply patch`). Run it with
     cd {ws} && PYTHONPATH={ws} /venv/bin/python _seed/demo.py
 * Save the change as {ws}/_seed/patch.diff (output of `git diff -- regions`), leave the change applied in the working tree,
   and write {ws}/_seed/notes.md saying: which file/function you changed, why it breaks the property, what specific input or
   sequence is needed for it to show, and the exact commands you ran with their results.
Finish by printing the contents of notes.md.""")
