#!/usr/bin/env python3
"""add an own mutant: tools/add_own.py <props,comma> <file> <old> <new> <note> [origin]"""
import json, sys
p = '/verif/sa/mutants_own.json'
d = json.load(open(p))
ms = d['mutants']
props, f, old, new, note = sys.argv[1:6]
origin = sys.argv[6] if len(sys.argv) > 6 else 'sweep survivor (suite passes)'
txt = open('/repo/' + f).read()
assert txt.count(old) >= 1, 'old text not found'
n = max(int(m['id'][1:]) for m in ms) + 1
ms.append({'id': f'o{n}', 'props': props.split(','), 'file': f, 'old': old, 'new': new, 'origin': origin, 'note': note,
           'suite': 'SURVIVES'})
json.dump(d, open(p, 'w'), indent=1)
print(f'o{n}')
