#!/usr/bin/env python3
"""Prompt for a sub-agent that REPAIRS a known defect (to test that the checks accept a correct repair)."""
import sys
ws, desc = sys.argv[1], sys.argv[2]
print(f"""You are a maintainer of the astropy/regions library. Work ONLY inside the scratch copy of the repository at {ws}
(a full git clone with the compiled extension modules in place). Do not read or write anything under /verif or /repo, and
do not use the network.

The library has this known defect:

  {desc}

Your task: repair it properly, the way you would in a pull request to the project — correct the behaviour for every input
of the kind described (not just the quoted example), keep the public API and everything unrelated exactly as it is, and do
not special-case the example. If an existing test pins the defective behaviour, adapt that test; add a regression test.

Rules:
 * Library changes go in .py files under {ws}/regions (the .pyx kernels cannot be rebuilt here).
 * The suite must pass with your change (apart from the failures/errors that also occur on the unchanged tree). Run it with:
     cd {ws} && PYTHONPATH={ws} /venv/bin/python -m pytest -q -p no:cacheprovider --timeout=900 --continue-on-collection-errors --color=no -n 8 2>&1 | tail -5
   The healthy result on the unchanged tree is: 1010 passed, 6 failed, and some environment errors.
 * Write {ws}/_seed/demo.py that exits 0 when the defect is repaired and 1 when it is present (check it on the unchanged
   tree with `git stash` and on your tree).
 * Save the LIBRARY part of the change as {ws}/_seed/patch.diff:
     cd {ws} && git diff -- regions ':(exclude)regions/**/tests/**' ':(exclude)regions/tests/**' > _seed/patch.diff
   and the test part as {ws}/_seed/tests.diff; leave everything applied; write {ws}/_seed/notes.md explaining the repair
   and why it is complete.
Finish by printing the contents of notes.md.""")
