#!/bin/bash
# run every claimed quick check in parallel; print one line per property
cd /verif
props=$(python3 -c "import json;print(' '.join(c['property_id'] for c in json.load(open('MANIFEST.json'))['checks']))")
for p in $props ${EXTRA}; do ( out=$(timeout 600 python3-vt sa/check.py $p --tier ${TIER:-quick} 2>&1); echo "$p rc=$? $(echo "$out" | tail -1)" ) & done; wait
