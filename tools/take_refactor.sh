#!/bin/bash
# usage: tools/take_refactor.sh <ws> <id>  -- copy an agent's refactoring out of its workspace, run every property on it, drop the workspace
WS=$1; ID=$2
mkdir -p /verif/refactors/$ID
cp $WS/_seed/patch.diff $WS/_seed/notes.md /verif/refactors/$ID/ 2>/dev/null
[ -s /verif/refactors/$ID/patch.diff ] || (cd $WS && git diff -- regions > /verif/refactors/$ID/patch.diff)
cmp -s $WS/_seed/before.txt $WS/_seed/after.txt && echo "digest identical ($(wc -l < $WS/_seed/after.txt) lines)" || echo "DIGEST DIFFERS OR MISSING"
rm -rf $WS
cd /verif && python3-vt tools/try_seed_mem.py refactors/$ID/patch.diff C01 C02 C03 C04 C05 C06 C07 C08 C09 C10 C11 C12 C13 C14 C15 C16 C17 C18 C19 C20 2>&1 | grep -v "exit=0" | cut -c1-700
echo "-- $ID done"
