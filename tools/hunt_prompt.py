#!/usr/bin/env python3
"""Prompt for a sub-agent that looks for inputs on which the UNCHANGED library already violates a property."""
import json, sys
pid, ws = sys.argv[1], sys.argv[2]
hint = sys.argv[3] if len(sys.argv) > 3 else ''
for l in open('/verif/properties.jsonl'):
    p = json.loads(l)
    if p['id'] == pid:
        break
print(f"""You are auditing a Python library. Work ONLY inside the scratch copy of the astropy/regions repository at {ws}
(a full git clone with the compiled extension modules in place). Do not read or write anything under /verif or /repo, and
do not use the network. Do NOT change the library.

Property of the library that should always hold:

  Title: {p['title']}
  Statement: {p['statement']}
  Quantified over: {p['quantifier']['text']}

Your task: find inputs, call sequences or files for which the library AS IT IS violates this property. Read the code that
implements it (the statement tells you where to look), think about corner cases the tests do not cover — unusual but
legal parameter types and units, degenerate or extreme geometry, rarely used keyword arguments, combinations of features,
sequences of calls on the same object, less common classes of the family — and try them. {hint}
Only report behaviour that clearly contradicts the statement above for inputs inside its quantifier; do not report
floating-point noise below 1e-9, documented limitations, or behaviour of astropy/numpy/matplotlib themselves.

Deliverables:
 * {ws}/_seed/findings.md: for every violation found: a title, the minimal reproducing snippet, what the library does, what
   the property requires, the place in the source (file, function, line) that causes it, and a one-paragraph suggestion
   of the smallest correct repair. If you find nothing after a serious search, say so and list what you tried.
 * {ws}/_seed/demo.py: a script that exits 1 and prints each violation when run on the unchanged tree
   (cd {ws} && PYTHONPATH={ws} /venv/bin/python _seed/demo.py), and would exit 0 once all of them are repaired.
Finish by printing the contents of findings.md.""")
