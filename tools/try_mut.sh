#!/bin/bash
# usage: tools/try_mut.sh <repo-relative file> <sed expr> <props...> ; applies the edit to /repo, runs the quick checks, reverts
f=$1; e=$2; shift 2
cd /repo && sed -i "$e" "$f" && git diff --stat | tail -1
if git diff --quiet; then echo "NO CHANGE"; exit 3; fi
cd /verif
for p in "$@"; do timeout 600 python3-vt sa/check.py $p 2>&1 | grep -v KNOWN | grep -E "finding|ANALYSIS-ERROR|^OK" | head -4; done
git -C /repo checkout -- .
