#!/usr/bin/env python3
"""Prompt for a sub-agent that produces a BEHAVIOUR-PRESERVING refactoring (to test the checks for false alarms)."""
import json, sys
pid, ws = sys.argv[1], sys.argv[2]
variant = sys.argv[3] if len(sys.argv) > 3 else ''
for l in open('/verif/properties.jsonl'):
    p = json.loads(l)
    if p['id'] == pid:
        break
print(f"""You are helping to test how robust a set of code checkers is. Work ONLY inside the scratch copy of the
astropy/regions repository at {ws} (a full git clone with the compiled extension modules in place). Do not read or write
anything under /verif or /repo, and do not use the network.

Property of the library (for orientation - it must KEEP holding):

  Title: {p['title']}
  Statement: {p['statement']}

Your task: refactor the library code that implements this behaviour (under {ws}/regions, not tests) WITHOUT changing what
it does. Make the kind of clean-up a maintainer might do in a refactoring PR, touching 2-4 functions that are central to
the property: for example rename local variables, extract or inline a small helper function, reorder independent
statements, replace an if/else chain by a dict lookup or the other way round, turn a loop into a comprehension, move a
constant table to module level, replace `a >= b` by `b <= a`, use an equivalent numpy/astropy spelling, add type hints or
early returns. {variant} The observable behaviour (return values, exceptions and their types, warnings, effects on arguments, output
text) must stay EXACTLY the same for every input.

Rules:
 * Only edit .py files under {ws}/regions (the .pyx kernels cannot be rebuilt here). Do not edit or add tests.
 * The existing suite must still pass. Run it with:
     cd {ws} && PYTHONPATH={ws} /venv/bin/python -m pytest -q -p no:cacheprovider --timeout=900 --continue-on-collection-errors --color=no -n 8 2>&1 | tail -5
   The healthy result on the unchanged tree is: 1010 passed, 6 failed, and some environment errors that also occur without
   any change; the count of passed tests must stay 1010 and no new failure may appear.
 * Write a script {ws}/_seed/equiv.py that exercises the refactored functions on a broad range of inputs (including edge
   cases and error cases) and prints a deterministic digest of all results (repr of values, exception type names, warning
   texts). Run it on the unchanged tree (`git stash`) and on your refactored tree and make sure the two outputs are
   byte-identical; save them as {ws}/_seed/before.txt and {ws}/_seed/after.txt.
 * Save the change as {ws}/_seed/patch.diff (output of `git diff -- regions`), leave it applied, and write
   {ws}/_seed/notes.md listing each edit and why it cannot change behaviour.
Finish by printing the contents of notes.md.""")
