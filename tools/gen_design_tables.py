#!/opt/veriftools/pyvenv/bin/python
"""Regenerate the generated sections of DESIGN.md (rule tables, seeded changes, findings)."""
import glob, importlib, json, os, re, sys
V = os.path.dirname(os.path.dirname(os.path.abspath(__file__)))
sys.path.insert(0, V)
out = []
out.append('(generated from `sa/rules/*.py`)\n')
out.append('| Rule | Tier | Floor | What the rule decides |\n|---|---|---|---|')
for i in range(1, 21):
    p = f'C{i:02d}'
    try:
        mod = importlib.import_module(f'sa.rules.{p.lower()}')
    except ModuleNotFoundError:
        out.append(f'| {p} | — | — | not applicable (see I.4) |')
        continue
    for rd in mod.RULES:
        out.append(f'| {p}.{rd.rid} | {rd.tier} | {rd.floor} | {rd.text} |')
rules = '\n'.join(out)

out = ['(generated from `seeded/*/meta.json`)\n',
       '| Seed | Property | What it needs to manifest | Suite with patch | Result of the checks | Missed at first? |\n|---|---|---|---|---|---|']
for mp in sorted(glob.glob(os.path.join(V, 'seeded', '*', 'meta.json'))):
    m = json.load(open(mp))
    sid = os.path.basename(os.path.dirname(mp))
    res = re.sub(r'\s+', ' ', m.get('checks_result', '')).replace('|', '/')
    missed = m.get('initially_missed')
    mtxt = 'no'
    if m.get('undecided_by_design'):
        mtxt = '**still missed, by design**: ' + m['undecided_by_design']
    elif missed:
        mtxt = ('yes' if missed is True else str(missed)) + ' → ' + m.get('strengthening', '')
    out.append(f"| {sid} | {m['property']} | {m['needs_to_manifest']} | {m['suite_with_patch'].split(' in ')[0]} | {res[:200]} | {mtxt.replace('|', '/')} |")
seeds = '\n'.join(out)

k = json.load(open(os.path.join(V, 'known_findings.json')))['findings']
out = ['(generated from `known_findings.json`)\n',
       '| Property | Key (rule : construct) | Status | Commit | What failed |\n|---|---|---|---|---|']
for f in k:
    what = re.sub(r'^fixed: property=\S+ \S+ ', '', f['what']).replace('|', '/')
    out.append(f"| {f['property']} | `{f['key'][:110]}` | {f['status']} | {f.get('commit', '')} | {what[:260]} |")
finds = '\n'.join(out)

path = os.path.join(V, 'DESIGN.md')
s = open(path).read()
for tag, txt in (('RULES', rules), ('SEEDS', seeds), ('FINDINGS', finds)):
    a, b = f'<!-- GENERATED:{tag} -->', f'<!-- /GENERATED:{tag} -->'
    if a in s and b in s:
        s = s[:s.index(a) + len(a)] + '\n' + txt + '\n' + s[s.index(b):]
open(path, 'w').write(s)
print('DESIGN.md tables regenerated')
