#!/usr/bin/env python3
"""Measure which own mutants survive the repository's unedited suite (scratch copies; one at a time).
Writes sa/mutants_own.json 'suite' fields.  Not part of any check."""
import json, os, re, shutil, subprocess, sys
P = '/verif/sa/mutants_own.json'
d = json.load(open(P))
for m in d['mutants']:
    if m.get('suite') or m['file'].endswith('.pyx'):
        if m['file'].endswith('.pyx'):
            m['suite'] = 'n/a (kernel cannot be rebuilt here)'
        continue
    S = f'/tmp/mut_{m["id"]}'
    shutil.rmtree(S, ignore_errors=True)
    subprocess.run(['cp', '-a', '/repo', S], check=True)
    fp = os.path.join(S, m['file'])
    t = open(fp).read()
    if t.count(m['old']) != 1:
        m['suite'] = 'anchor-missing'
        shutil.rmtree(S); continue
    open(fp, 'w').write(t.replace(m['old'], m['new'], 1))
    r = subprocess.run(['/venv/bin/python', '-m', 'pytest', '-q', '-p', 'no:cacheprovider', '--timeout=900',
                        '--continue-on-collection-errors', '--color=no', '-n', '12'], cwd=S, capture_output=True, text=True,
                       env={**os.environ, 'PYTHONPATH': S})
    tail = r.stdout.strip().splitlines()[-1] if r.stdout.strip() else 'no output'
    mm = re.search(r'(\d+) failed, (\d+) passed', tail)
    ok = bool(mm) and int(mm.group(2)) == 1010 and int(mm.group(1)) == 6
    m['suite'] = 'SURVIVES' if ok else 'killed'
    m['counts'] = tail
    shutil.rmtree(S)
    json.dump(d, open(P, 'w'), indent=1)
    print(m['id'], m['suite'], tail, flush=True)
json.dump(d, open(P, 'w'), indent=1)
