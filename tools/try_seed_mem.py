#!/usr/bin/env python3
"""run the quick+thorough rules of the given properties on /repo with a patch applied IN MEMORY (no change to /repo).
usage: python3-vt tools/try_seed_mem.py <patch.diff> <Cxx> [<Cyy> ...]"""
import os, sys
sys.path.insert(0, os.path.dirname(os.path.dirname(os.path.abspath(__file__))))
from sa.check import load_prop
from sa.model import Model
from sa.report import run_rules
from sa.selftest import apply_unified_diff
from sa.src import AnalysisError, SourceTree

patch, props = sys.argv[1], sys.argv[2:]
tree = SourceTree()
texts = apply_unified_diff(tree, open(patch).read())
if texts is None:
    print('PATCH DOES NOT APPLY'); sys.exit(8)
for p in props:
    base, _ = run_rules(p, load_prop(p).RULES, Model(SourceTree()), 'selftest')
    bk = {f.key for f in base.findings}
    try:
        ctx, _ = run_rules(p, load_prop(p).RULES, Model(tree.with_overlay(texts)), 'selftest')
    except AnalysisError as exc:
        print(f'== {p} exit=2 ANALYSIS-ERROR {exc}'); continue
    new = [f for f in ctx.findings if f.key not in bk]
    gone = sorted(bk - {f.key for f in ctx.findings})
    if gone:
        print(f'   {p}: no longer reported: ' + '; '.join(gone))
    print(f'== {p} exit={1 if new else (2 if ctx.errors else 0)} ' + ' '.join('finding ' + f.key for f in new[:4])
          + (' ANALYSIS-ERROR ' + str(ctx.errors[0]) if ctx.errors and not new else ''))
    for f in new[:2]:
        print('   ', f.msg[:300])
