#!/opt/veriftools/pyvenv/bin/python
"""Generate /verif/MANIFEST.json from the table below (kept valid at all times)."""
import json, os, subprocess
V = os.path.dirname(os.path.dirname(os.path.abspath(__file__)))
ALL = [f'C{i:02d}' for i in range(1, 21)]
# property -> (technique, level text, level note)
import sys, importlib
sys.path.insert(0, V)
TECH = json.load(open(os.path.join(V, 'tools', 'claims.json')))
CLAIMED = {}
for p, t in TECH.items():
    mod = importlib.import_module(f'sa.rules.{p.lower()}')
    CLAIMED[p] = {'technique': t, 'text': mod.EXPLANATION,
                  'note': 'Trusted: ' + '; '.join(mod.TRUSTED) + '. Assumes: ' + '; '.join(mod.ASSUMPTIONS)}
NA = json.load(open(os.path.join(V, 'tools', 'not_applicable.json')))
fix = subprocess.run(['git', '-C', '/repo', 'log', '--format=%h %s', '250308d..HEAD'],
                     capture_output=True, text=True).stdout.strip().splitlines()
man = {
 'version': 1,
 'setup_cmd': 'python3-vt -c "import sympy, networkx, ast; print(\'static-analysis engine needs no build\')"',
 'hooks': {'guard': 'REGIONS_VERIF', 'enable': 'none needed: the checks parse /repo source and never import or run it; no hook commits exist',
           'baseline_off_cmd': 'cd /repo && /venv/bin/python -m pytest -ra -q -p no:cacheprovider --timeout=900 --continue-on-collection-errors',
           'source_commits': [l.split()[0] for l in fix], 'add_only': True},
 'engines': [{'name': 'sa', 'path': 'sa/', 'serves_properties': sorted(CLAIMED),
              'kind_free_text': 'repo-specific static analysis: resolved ast model, CFG, value graph + polynomial normal form, effect analysis, table partial evaluation, order-type abstract interpretation'}],
 'checks': [], 'not_applicable': [],
 'notes': 'All checks are static (ast over /repo working tree); fix: commits in /repo are unguarded repairs of genuine defects listed in known_findings.json.',
}
for p in ALL:
    if p in CLAIMED:
        c = CLAIMED[p]
        man['checks'].append({
            'property_id': p,
            'quick_cmd': f'python3-vt sa/check.py {p} --tier quick',
            'thorough_cmd': f'python3-vt sa/check.py {p} --tier thorough',
            'evidence_file': f'/verif/evidence/{p}.json',
            'replay_cmd_template': f'python3-vt sa/check.py {p} --replay {{path}}',
            'engine': 'sa',
            'level_claimed': {'category': 'other', 'text': c['text'], 'design_ref': c.get('design_ref', f'DESIGN.md section 4 {p}')},
            'level_note': c['note'], 'technique': c['technique']})
    else:
        man['not_applicable'].append({'property_id': p, 'reason': NA.get(p, 'not claimed: no sound static argument in reach (see DESIGN.md)')})
json.dump(man, open(os.path.join(V, 'MANIFEST.json'), 'w'), indent=1)
print('claimed', len(man['checks']), 'not_applicable', len(man['not_applicable']))
