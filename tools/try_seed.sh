#!/bin/bash
# usage: tools/try_seed.sh <patch.diff> <prop> [prop...]  -- apply to /repo, run checks, revert
P=$1; shift
cd /repo || exit 9
if ! git diff --quiet; then echo "/repo dirty"; exit 9; fi
git apply "$P" || { echo "PATCH DOES NOT APPLY"; exit 8; }
cd /verif
for p in "$@"; do
  out=$(python3-vt sa/check.py $p --tier quick 2>&1); rc=$?
  echo "== $p exit=$rc"; echo "$out" | grep -E "finding|VIOLATION|ANALYSIS-ERROR" | head -6
done
git -C /repo checkout -- . ; git -C /repo status --short | head -3
