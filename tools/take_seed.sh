#!/bin/bash
# usage: tools/take_seed.sh <ws> <id> <prop> "<needs>"  -- copy an agent's result out of its workspace, confirm it, drop the workspace
WS=$1; ID=$2; PROP=$3; NEEDS=$4
mkdir -p /verif/seeded/$ID
cp $WS/_seed/patch.diff $WS/_seed/demo.py /verif/seeded/$ID/ 2>/dev/null
cp $WS/_seed/notes.md /verif/seeded/$ID/ 2>/dev/null
[ -s /verif/seeded/$ID/patch.diff ] || (cd $WS && git diff > /verif/seeded/$ID/patch.diff)
rm -rf $WS
cd /verif && tools/confirm_seed.sh seeded/$ID $PROP "$NEEDS"
