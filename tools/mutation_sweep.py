#!/usr/bin/env python3
"""Generic mutation sweep (development aid, not a registered check).

Enumerates operator-level mutants of the library sources (comparison, arithmetic, constant, boolean, unary,
argument-swap), applies each in memory, runs the quick rules of all claimed properties on the overlay and records
which mutants no rule reports.  With --suite the unreported ones are then run against the repository's own suite in a
scratch copy (outside /repo and /verif), to find changes that survive both — candidates for blind spots, to be
triaged by hand (many are equivalent or outside the 20 properties).

usage: python3-vt tools/mutation_sweep.py [--sample N] [--seed S] [--files glob] [--suite] [--out sweep/results.json]
"""
import argparse
import ast
import copy
import fnmatch
import json
import os
import random
import subprocess
import sys
import time
from concurrent.futures import ProcessPoolExecutor

VERIF = os.path.dirname(os.path.dirname(os.path.abspath(__file__)))
sys.path.insert(0, VERIF)

SKIP_DIRS = ('tests', '_utils/examples', 'extern')
CMP = {ast.Lt: ast.LtE, ast.LtE: ast.Lt, ast.Gt: ast.GtE, ast.GtE: ast.Gt, ast.Eq: ast.NotEq, ast.NotEq: ast.Eq,
       ast.In: ast.NotIn, ast.NotIn: ast.In, ast.Is: ast.IsNot, ast.IsNot: ast.Is}
BIN = {ast.Add: ast.Sub, ast.Sub: ast.Add, ast.Mult: ast.Div, ast.Div: ast.Mult}


def stmt_of(node, parents):
    cur = node
    while cur in parents and not isinstance(cur, ast.stmt):
        cur = parents[cur]
    return cur if isinstance(cur, ast.stmt) else None


def enumerate_mutants(path, text):
    tree = ast.parse(text)
    parents = {}
    for n in ast.walk(tree):
        for c in ast.iter_child_nodes(n):
            parents[c] = n
    out = []

    def in_docstring(n):
        p = parents.get(n)
        return isinstance(p, ast.Expr)

    for node in ast.walk(tree):
        muts = []
        if isinstance(node, ast.Compare) and len(node.ops) == 1 and type(node.ops[0]) in CMP:
            muts.append(('cmp', lambda n: setattr(n, 'ops', [CMP[type(n.ops[0])]()])))
        if isinstance(node, ast.BinOp) and type(node.op) in BIN:
            muts.append(('arith', lambda n: setattr(n, 'op', BIN[type(n.op)]())))
        if isinstance(node, ast.Constant) and not in_docstring(node):
            if isinstance(node.value, bool):
                muts.append(('bool', lambda n: setattr(n, 'value', not n.value)))
            elif isinstance(node.value, (int, float)) and not isinstance(node.value, bool):
                muts.append(('const', lambda n: setattr(n, 'value', n.value + 1)))
        if isinstance(node, ast.UnaryOp) and isinstance(node.op, (ast.USub, ast.Not)):
            muts.append(('unary', None))
        if isinstance(node, ast.BoolOp) and len(node.values) == 2:
            muts.append(('boolop', lambda n: setattr(n, 'op', ast.Or() if isinstance(n.op, ast.And) else ast.And())))
        if isinstance(node, ast.Call) and len(node.args) >= 2 and not any(isinstance(a, ast.Starred) for a in node.args):
            muts.append(('argswap', lambda n: n.args.__setitem__(slice(0, 2), [n.args[1], n.args[0]])))
        if not muts:
            continue
        st = stmt_of(node, parents)
        if st is None or isinstance(st, (ast.FunctionDef, ast.ClassDef, ast.Import, ast.ImportFrom)):
            continue
        if isinstance(st, (ast.If, ast.For, ast.While, ast.With, ast.Try)):
            # only mutate inside the header expression of compound statements
            hdr = st.test if isinstance(st, (ast.If, ast.While)) else (st.iter if isinstance(st, ast.For) else None)
            if hdr is None or not any(n is node for n in ast.walk(hdr)):
                continue
        for kind, fn in muts:
            out.append((path, st.lineno, st.end_lineno, kind, node))
    return tree, parents, out


def apply_mutant(text, tree, parents, st_lines, kind, node):
    """new file text with the statement containing `node` re-emitted after the mutation."""
    st = stmt_of(node, parents)
    lines = text.split('\n')
    # locate node inside a deep copy of the statement by position
    key = (type(node).__name__, node.lineno, node.col_offset, getattr(node, 'end_col_offset', None))
    st2 = copy.deepcopy(st)
    target = None
    for n in ast.walk(st2):
        if hasattr(n, 'lineno') and (type(n).__name__, n.lineno, n.col_offset, getattr(n, 'end_col_offset', None)) == key:
            target = n
            break
    if target is None:
        return None
    if kind == 'cmp':
        target.ops = [CMP[type(target.ops[0])]()]
    elif kind == 'arith':
        target.op = BIN[type(target.op)]()
    elif kind == 'bool':
        target.value = not target.value
    elif kind == 'const':
        target.value = target.value + 1
    elif kind == 'boolop':
        target.op = ast.Or() if isinstance(target.op, ast.And) else ast.And()
    elif kind == 'argswap':
        target.args[0:2] = [target.args[1], target.args[0]]
    elif kind == 'unary':
        # replace the unary expression by its operand
        for p in ast.walk(st2):
            for f, v in ast.iter_fields(p):
                if v is target:
                    setattr(p, f, target.operand)
                elif isinstance(v, list) and any(x is target for x in v):
                    v[v.index(target)] = target.operand
    indent = len(lines[st.lineno - 1]) - len(lines[st.lineno - 1].lstrip())
    if isinstance(st, (ast.If, ast.While, ast.For)):
        # re-emit the header line(s) only
        hdr_end = st.body[0].lineno - 1
        if isinstance(st, ast.For):
            new_hdr = f'for {ast.unparse(st2.target)} in {ast.unparse(st2.iter)}:'
        else:
            kw = 'if' if isinstance(st, ast.If) else 'while'
            first = lines[st.lineno - 1].lstrip()
            kw = 'elif' if first.startswith('elif') else kw
            new_hdr = f'{kw} {ast.unparse(st2.test)}:'
        # keep a same-line body out of scope
        if st.body[0].lineno == st.lineno:
            return None
        new = lines[:st.lineno - 1] + [' ' * indent + new_hdr] + lines[hdr_end:]
    else:
        src = ast.unparse(st2).split('\n')
        new = lines[:st.lineno - 1] + [' ' * indent + s for s in src] + lines[st.end_lineno:]
    new_text = '\n'.join(new)
    try:
        ast.parse(new_text)
    except SyntaxError:
        return None
    return new_text if new_text != text else None


def check_one(args):
    """run all properties' quick rules on the overlay; return list of props that report (new finding or fail-closed)."""
    mid, path, new_text, base = args
    from sa.check import load_prop
    from sa.model import Model
    from sa.report import run_rules
    from sa.src import AnalysisError, SourceTree
    ov = SourceTree().with_overlay({path: new_text})
    try:
        model = Model(ov)
    except Exception as exc:
        return mid, {'*': f'model: {exc!r}'[:80]}
    hits = {}
    for prop, keys in base.items():
        try:
            ctx, _ = run_rules(prop, load_prop(prop).RULES, model, 'quick')
            new = [f.key for f in ctx.findings if f.key not in keys]
            if new:
                hits[prop] = new[0]
            elif ctx.errors:
                hits[prop] = 'fail-closed: ' + str(ctx.errors[0])[:80]
        except AnalysisError as exc:
            hits[prop] = 'fail-closed: ' + str(exc)[:80]
        except Exception as exc:
            hits[prop] = 'fail-closed(internal): ' + repr(exc)[:80]
    return mid, hits


def run_suite(path, new_text):
    s = f'/tmp/sweep_{os.getpid()}'
    subprocess.run(['rm', '-rf', s])
    subprocess.run(['cp', '-a', '/repo', s], check=True)
    try:
        with open(os.path.join(s, path), 'w') as fh:
            fh.write(new_text)
        r = subprocess.run(['/venv/bin/python', '-m', 'pytest', '-q', '-p', 'no:cacheprovider', '--timeout=900',
                            '--continue-on-collection-errors', '--color=no', '-n', '16'],
                           cwd=s, env=dict(os.environ, PYTHONPATH=s), capture_output=True, text=True)
        tail = r.stdout.strip().split('\n')[-1]
    finally:
        subprocess.run(['rm', '-rf', s])
    return tail


def main():
    ap = argparse.ArgumentParser()
    ap.add_argument('--sample', type=int, default=400)
    ap.add_argument('--seed', type=int, default=1)
    ap.add_argument('--files', default='*')
    ap.add_argument('--suite', action='store_true')
    ap.add_argument('--reuse', action='store_true', help='reuse the static results already in --out (same seed/sample)')
    ap.add_argument('--recheck', action='store_true', help='re-run the current rules on the survivors recorded in --out')
    ap.add_argument('--exclude', default=None, help='results file of an earlier sweep: its mutants are not drawn again')
    ap.add_argument('--out', default=os.path.join(VERIF, 'sweep', 'results.json'))
    a = ap.parse_args()
    from sa.check import load_prop
    from sa.model import Model
    from sa.report import run_rules
    from sa.src import SourceTree
    tree = SourceTree()
    props = [p for p in sorted(json.load(open(os.path.join(VERIF, 'tools', 'claims.json'))))]
    base = {}
    m0 = Model(tree)
    for p in props:
        ctx, _ = run_rules(p, load_prop(p).RULES, m0, 'quick')
        base[p] = sorted({f.key for f in ctx.findings})
    cands = []
    for path in tree.py_files():
        if any(d in path for d in SKIP_DIRS) or not fnmatch.fnmatch(path, a.files):
            continue
        text = tree.text(path)
        t, parents, ms = enumerate_mutants(path, text)
        for (pth, l0, l1, kind, node) in ms:
            cands.append((pth, kind, node, t, parents, text))
    random.Random(a.seed).shuffle(cands)
    jobs = []
    meta = {}
    seen = set()
    if a.exclude:
        seen = {(r['file'], r['kind'], r['old'], r['new']) for r in json.load(open(a.exclude))['mutants']}
    for pth, kind, node, t, parents, text in cands:
        if len(jobs) >= a.sample:
            break
        new_text = apply_mutant(text, t, parents, None, kind, node)
        if new_text is None:
            continue
        if seen:
            ol = text.split('\n')[node.lineno - 1].strip()[:160]
            st_ = stmt_of(node, parents)
            nl = ' / '.join(x.strip() for x in new_text.split('\n')[st_.lineno - 1:st_.lineno + 2])[:200]
            if (pth, kind, ol, nl) in seen:
                continue
        mid = f's{len(jobs):04d}'
        old_line = text.split('\n')[node.lineno - 1].strip()
        st = stmt_of(node, parents)
        new_lines = new_text.split('\n')[st.lineno - 1:st.lineno + 2]
        meta[mid] = {'file': pth, 'line': node.lineno, 'kind': kind, 'old': old_line[:160],
                     'new': ' / '.join(x.strip() for x in new_lines)[:200]}
        jobs.append((mid, pth, new_text, base))
    print(f'{len(cands)} candidate sites, {len(jobs)} mutants sampled', flush=True)
    t0 = time.time()
    res = {}
    if a.recheck:
        prevd = json.load(open(a.out))
        sig = lambda r: (r['file'], r['kind'], r['old'], r['new'])          # noqa: E731
        bysig = {sig(r): r for r in prevd['mutants']}
        prev = {}
        a.sample = 10 ** 9
        jobs, meta = [], {}
        for pth, kind, node, t, parents, text in cands:
            new_text = apply_mutant(text, t, parents, None, kind, node)
            if new_text is None:
                continue
            old_line = text.split('\n')[node.lineno - 1].strip()
            st = stmt_of(node, parents)
            new_lines = new_text.split('\n')[st.lineno - 1:st.lineno + 2]
            mm = {'file': pth, 'line': node.lineno, 'kind': kind, 'old': old_line[:160],
                  'new': ' / '.join(x.strip() for x in new_lines)[:200]}
            r = bysig.get(sig(mm))
            if r is not None and r['id'] not in prev:
                prev[r['id']] = r
                meta[r['id']] = mm
                jobs.append((r['id'], pth, new_text, base))
        todo = [j for j in jobs if not prev[j[0]]['reported_by'] and '1010 passed' in prev[j[0]].get('suite', '')
                and not prev[j[0]].get('triage')]
        print(f'{len(todo)} survivors still match the current tree', flush=True)
        with ProcessPoolExecutor(max_workers=16) as ex:
            for mid, hits in ex.map(check_one, todo, chunksize=2):
                prev[mid]['reported_now'] = hits
                if not hits:
                    print('SURVIVOR', mid, meta[mid]['file'], meta[mid]['line'], meta[mid]['kind'], '|', meta[mid]['old'], '=>', meta[mid]['new'], flush=True)
        with open(a.out, 'w') as fh:
            json.dump(prevd, fh, indent=1)
        return
    if a.reuse and os.path.exists(a.out):
        prev = {r['id']: r for r in json.load(open(a.out))['mutants']}
        if all(mid in prev and prev[mid]['file'] == meta[mid]['file'] and prev[mid]['line'] == meta[mid]['line']
               and prev[mid]['kind'] == meta[mid]['kind'] for mid in meta):
            res = {mid: prev[mid]['reported_by'] for mid in meta}
            print('static results reused', flush=True)
    if not res:
        with ProcessPoolExecutor(max_workers=16) as ex:
            for mid, hits in ex.map(check_one, jobs, chunksize=2):
                res[mid] = hits
    print(f'static checks: {time.time() - t0:.0f}s', flush=True)
    texts = {j[0]: (j[1], j[2]) for j in jobs}
    out = []
    for mid in sorted(res):
        r = dict(meta[mid], id=mid, reported_by=res[mid])
        out.append(r)
    unreported = [r for r in out if not r['reported_by']]
    print(f'reported by some rule: {len(out) - len(unreported)}; unreported: {len(unreported)}', flush=True)
    os.makedirs(os.path.dirname(a.out), exist_ok=True)
    with open(a.out, 'w') as fh:
        json.dump({'seed': a.seed, 'mutants': out}, fh, indent=1)
    if a.suite:
        for k, r in enumerate(unreported):
            r['suite'] = run_suite(*texts[r['id']])
            print(r['id'], r['file'], r['line'], r['kind'], '|', r['suite'], flush=True)
            if k % 10 == 9:
                with open(a.out, 'w') as fh:
                    json.dump({'seed': a.seed, 'mutants': out}, fh, indent=1)
        with open(a.out, 'w') as fh:
            json.dump({'seed': a.seed, 'mutants': out}, fh, indent=1)


if __name__ == '__main__':
    main()
