#!/bin/bash
# usage: tools/confirm_seed.sh <seed dir> <prop> "<needs>"  -- confirm a seeded change in a scratch copy, write meta.json
D=$(realpath $1); PROP=$2; NEEDS=$3
S=/tmp/confirm_$$; rm -rf $S; cp -a /repo $S; mkdir -p $S/_seed; cp $D/demo.py $S/_seed/
cd $S
sed -i "s#/tmp/seed[0-9]*_[A-Za-z0-9_]*#$S#g" _seed/demo.py
PYTHONPATH=$S /venv/bin/python _seed/demo.py >/tmp/confirm_clean.log 2>&1; RC_CLEAN=$?
git apply $D/patch.diff || { echo "PATCH DOES NOT APPLY"; cd /; rm -rf $S; exit 8; }
PYTHONPATH=$S /venv/bin/python _seed/demo.py >/tmp/confirm_patched.log 2>&1; RC_PATCHED=$?
SUITE=$(PYTHONPATH=$S /venv/bin/python -m pytest -q -p no:cacheprovider --timeout=900 --continue-on-collection-errors --color=no -n 16 2>&1 | tail -1)
cd /; rm -rf $S
echo "demo clean=$RC_CLEAN patched=$RC_PATCHED suite: $SUITE"
CHK=$(cd /verif && python3-vt tools/try_seed_mem.py $D/patch.diff $PROP 2>&1 | grep -E "^== " | tr '\n' ' ')
python3 - "$D" "$PROP" "$NEEDS" "$RC_CLEAN" "$RC_PATCHED" "$SUITE" "$CHK" <<'PY'
import json,sys,subprocess
d,prop,needs,rc0,rc1,suite,chk=sys.argv[1:8]
head=subprocess.run(['git','-C','/repo','log','--format=%h','-1'],capture_output=True,text=True).stdout.strip()
json.dump({'property':prop,'needs_to_manifest':needs,'repo_head_when_confirmed':head,
 'demo_exit_on_unchanged_tree':int(rc0),'demo_exit_with_patch':int(rc1),'suite_with_patch':suite,
 'ran':['scratch copy of /repo; demo.py without and with patch.diff; unedited suite with patch (-n 16)','tools/try_seed.sh patch.diff '+prop],
 'checks_result':chk,'origin':'independent sub-agent given only the property text'},open(d+'/meta.json','w'),indent=1)
PY
echo "$CHK"
