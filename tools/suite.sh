#!/bin/bash
# Run the repository's unedited test suite on a scratch copy of /repo's working tree.
# usage: tools/suite.sh [patchfile]   (patch applied to the scratch copy only)
set -e
S=/tmp/regions_scratch_$$
rm -rf $S; cp -a /repo $S
cd $S
if [ -n "$1" ]; then git apply "$1"; fi
PYTHONPATH=$S /venv/bin/python -m pytest -q -p no:cacheprovider --timeout=900 --continue-on-collection-errors --color=no -n 16 2>&1 | tail -3
cd /; rm -rf $S
