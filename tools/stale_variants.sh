#!/bin/bash
# list self-test variants (mutants, seeds, refactorings, repairs) that no longer apply to /repo's current tree
cd /verif; python3-vt -m sa.selftest 2>&1 | python3 -c "
import sys,re,ast
sk=set()
for line in sys.stdin:
    m=re.match(r'^(C\d\d) (\{.*\})$', line.strip())
    if m:
        d=ast.literal_eval(m.group(2)); sk|=set(d['skipped'])
        for k in ('missed','false_alarms','fail_closed'):
            if d[k]: print(m.group(1), k, d[k])
print('stale:', sorted(sk))
"
